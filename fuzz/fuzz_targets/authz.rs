#![no_main]
mod common;
use libfuzzer_sys::fuzz_target;
fuzz_target!(|data: &[u8]| {
    common::drive("C03", data, gpa_verif::props::c03::strategy(), gpa_verif::props::c03::eval);
});
