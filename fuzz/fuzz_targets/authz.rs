#![no_main]
mod common;
use libfuzzer_sys::fuzz_target;
fuzz_target!(|data: &[u8]| {
    let mut w = common::Words::new(data);
    common::judge("C03", gpa_verif::props::c03::case_from_words(&mut w), gpa_verif::props::c03::eval);
});
