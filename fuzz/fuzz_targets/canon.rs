#![no_main]
mod common;
use libfuzzer_sys::fuzz_target;
fuzz_target!(|data: &[u8]| {
    if data.first().map(|b| b % 2 == 0).unwrap_or(true) {
        common::drive("C04", &data[1.min(data.len())..], gpa_verif::props::c04::strategy(), gpa_verif::props::c04::eval);
    } else {
        common::drive("C04", &data[1..], gpa_verif::props::c04::own_strategy(), gpa_verif::props::c04::eval_own);
    }
});
