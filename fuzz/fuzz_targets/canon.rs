#![no_main]
mod common;
use libfuzzer_sys::fuzz_target;
fuzz_target!(|data: &[u8]| {
    let mut w = common::Words::new(data);
    if w.next() % 2 == 0 {
        common::judge("C04", gpa_verif::props::c04::case_from_words(&mut w, false), gpa_verif::props::c04::eval);
    } else {
        common::judge("C04", gpa_verif::props::c04::case_from_words(&mut w, true), gpa_verif::props::c04::eval_own);
    }
});
