// Shared glue: libFuzzer bytes become the random stream of the SAME proptest strategies the checks use
// (proptest's pass-through RNG), and the SAME oracle decides. A failure panics with the signature,
// so the crashing input is the replay artefact; signatures listed as known findings are tolerated.
use gpa_verif::report::{Known, Stats};
use gpa_verif::runner::Outcome;
use proptest::strategy::{Strategy, ValueTree};
use proptest::test_runner::{Config, RngAlgorithm, TestRng, TestRunner};

pub fn drive<S: Strategy>(prop: &str, data: &[u8], strategy: S, eval: impl Fn(&S::Value, &mut Stats) -> Outcome)
where
    S::Value: std::fmt::Debug,
{
    if data.len() < 8 {
        return;
    }
    // rand's uniform sampling rejects some values and would spin forever on the zeros that the
    // pass-through RNG yields once the input is used up: append a deterministic pseudo-random tail
    let mut buf = data.to_vec();
    let mut x: u64 = 0x9E37_79B9_7F4A_7C15 ^ (data.len() as u64);
    for b in data.iter().take(64) {
        x = (x ^ *b as u64).wrapping_mul(0x1000_0000_01B3);
    }
    for _ in 0..4096 {
        x ^= x << 13;
        x ^= x >> 7;
        x ^= x << 17;
        buf.extend_from_slice(&x.to_le_bytes());
    }
    let rng = TestRng::from_seed(RngAlgorithm::PassThrough, &buf);
    let mut runner = TestRunner::new_with_rng(Config::default(), rng);
    let tree = match strategy.new_tree(&mut runner) {
        Ok(t) => t,
        Err(_) => return,
    };
    let case = tree.current();
    let mut stats = Stats::new();
    let out = gpa_verif::runner::guarded(|| eval(&case, &mut stats));
    if let Outcome::Fail { signature, detail } = out {
        let known = Known::load(prop);
        if !known.is_known(&signature) {
            panic!("VIOLATION property={} signature={} detail={} case={:?}", prop, signature, detail, case);
        }
    }
}
