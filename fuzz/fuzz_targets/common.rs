// Shared glue: the words of the libFuzzer input select the components of a case through the SAME proptest
// strategies the checks use (gpa_verif::words), and the SAME oracle decides. A failure panics with its
// signature, so the crashing input is the replay artefact; signatures listed as known findings are tolerated.
use gpa_verif::report::{Known, Stats};
use gpa_verif::runner::Outcome;
pub use gpa_verif::words::Words;

// The agent's logger parses the process arguments with clap (and exits on libFuzzer's flags). libFuzzer has
// copied its flags by the time the first input runs, so the argument vector is cut after argv[0] then
// (std::env::args stops at the first NULL entry).
static ARGC: std::sync::atomic::AtomicI32 = std::sync::atomic::AtomicI32::new(0);
static ARGV: std::sync::atomic::AtomicPtr<*mut std::ffi::c_char> = std::sync::atomic::AtomicPtr::new(std::ptr::null_mut());
#[used]
#[link_section = ".init_array"]
static SAVE_ARGV: extern "C" fn(i32, *mut *mut std::ffi::c_char, *mut *mut std::ffi::c_char) = save_argv;
extern "C" fn save_argv(argc: i32, argv: *mut *mut std::ffi::c_char, _envp: *mut *mut std::ffi::c_char) {
    ARGC.store(argc, std::sync::atomic::Ordering::SeqCst);
    ARGV.store(argv, std::sync::atomic::Ordering::SeqCst);
}
fn hide_args() {
    static ONCE: std::sync::Once = std::sync::Once::new();
    ONCE.call_once(|| {
        let argv = ARGV.load(std::sync::atomic::Ordering::SeqCst);
        if !argv.is_null() && ARGC.load(std::sync::atomic::Ordering::SeqCst) > 1 {
            unsafe { *argv.add(1) = std::ptr::null_mut() };
        }
    });
}

pub fn judge<C: std::fmt::Debug>(prop: &str, case: C, eval: impl Fn(&C, &mut Stats) -> Outcome) {
    hide_args();
    let mut stats = Stats::new();
    let out = gpa_verif::runner::guarded(|| eval(&case, &mut stats));
    if let Outcome::Fail { signature, detail } = out {
        let known = Known::load(prop);
        if !known.is_known(&signature) {
            eprintln!("FUZZ-VIOLATION property={} signature={}", prop, signature);
            panic!("VIOLATION property={} signature={} detail={} case={:?}", prop, signature, detail, case);
        }
    }
}
