// Shared glue: libFuzzer bytes become the random stream of the SAME proptest strategies the checks use
// (proptest's pass-through RNG), and the SAME oracle decides. A failure panics with the signature,
// so the crashing input is the replay artefact; signatures listed as known findings are tolerated.
use gpa_verif::report::{Known, Stats};
use gpa_verif::runner::Outcome;
use proptest::strategy::{Strategy, ValueTree};
use proptest::test_runner::{Config, RngAlgorithm, TestRng, TestRunner};

pub fn drive<S: Strategy>(prop: &str, data: &[u8], strategy: S, eval: impl Fn(&S::Value, &mut Stats) -> Outcome)
where
    S::Value: std::fmt::Debug,
{
    if data.len() < 8 {
        return;
    }
    let rng = TestRng::from_seed(RngAlgorithm::PassThrough, data);
    let mut runner = TestRunner::new_with_rng(Config::default(), rng);
    let tree = match strategy.new_tree(&mut runner) {
        Ok(t) => t,
        Err(_) => return,
    };
    let case = tree.current();
    let mut stats = Stats::new();
    let out = gpa_verif::runner::guarded(|| eval(&case, &mut stats));
    if let Outcome::Fail { signature, detail } = out {
        let known = Known::load(prop);
        if !known.is_known(&signature) {
            panic!("VIOLATION property={} signature={} detail={} case={:?}", prop, signature, detail, case);
        }
    }
}
