#![no_main]
mod common;
use libfuzzer_sys::fuzz_target;
fuzz_target!(|data: &[u8]| {
    let mut w = common::Words::new(data);
    if w.next() % 2 == 0 {
        common::judge("C20", gpa_verif::props::c20::runs_from_words(&mut w), gpa_verif::props::c20::eval_runs);
    } else {
        common::judge("C20", gpa_verif::props::c20::notify_from_words(&mut w), gpa_verif::props::c20::eval_notify);
    }
});
