#![no_main]
mod common;
use libfuzzer_sys::fuzz_target;
fuzz_target!(|data: &[u8]| {
    if data.first().map(|b| b % 2 == 0).unwrap_or(true) {
        common::drive("C20", &data[1.min(data.len())..], gpa_verif::props::c20::runs_strategy(), gpa_verif::props::c20::eval_runs);
    } else {
        common::drive("C20", &data[1..], gpa_verif::props::c20::notify_strategy(), gpa_verif::props::c20::eval_notify);
    }
});
