#![no_main]
mod common;
use libfuzzer_sys::fuzz_target;
fuzz_target!(|data: &[u8]| {
    common::drive("C02", data, gpa_verif::props::c02::strategy(), gpa_verif::props::c02::eval);
});
