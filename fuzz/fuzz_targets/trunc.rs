#![no_main]
mod common;
use libfuzzer_sys::fuzz_target;
fuzz_target!(|data: &[u8]| {
    common::drive("C13", data, gpa_verif::props::c13::pure_strategy(), gpa_verif::props::c13::eval_pure);
});
