#![no_main]
mod common;
use libfuzzer_sys::fuzz_target;
fuzz_target!(|data: &[u8]| {
    let mut w = common::Words::new(data);
    common::judge("C13", gpa_verif::props::c13::pure_from_words(&mut w), gpa_verif::props::c13::eval_pure);
});
