#!/usr/bin/env python3
"""Regenerates MANIFEST.json from the table below (kept in one place so the manifest stays valid)."""
import json, subprocess

CLAIMED = {
 "C02": ("exploration", "pure", "property-based differential testing (proptest) against an independent reference RBAC evaluator + metamorphic relations",
         "Generated rule documents x claims x URLs through the agent's own serde types, from_authorization_item and is_allowed, compared with a reference evaluator written from the statement (admissible sets where the statement is silent), plus permutation / case / rebuild / mode-swap metamorphic relations. Exploration: 2.4e5 cases quick, 2e7 thorough; no proof of absence.",
         "Trusts: the reference evaluator (80 lines, DESIGN.md A.1); rule documents arrive as JSON the agent's serde types accept; identity attributes compare as exact strings.", "4 C02"),
 "C03": ("exploration", "pure", "property-based differential testing against a reference authorizer table, constant oracle Forbidden for non-elevated callers / self destination",
         "proxy_authorizer::authorize and get_authorizer on generated (rule set, claims, URL, destination) against the reference table; the C03 statement is asserted directly (non-elevated -> Forbidden on WireServer/HostGAPlugin under every rule set, self destination always Forbidden).",
         "The pure half sees the authorizer functions; the end-to-end half runs the C01 rig restricted to non-elevated records for WireServer/HostGAPlugin and to the self destination (403, zero upstream bytes).", "4 C03"),
 "C04": ("exploration", "pure", "property-based differential testing of the canonical string and MAC against an independent canonicaliser + hand-written HMAC-SHA256; metamorphic single-component changes; two-route agreement",
         "as_sig_input and build_request on generated requests compared byte-for-byte with an independent canonicaliser (exact parameter multiset, either admissible order) and an independent HMAC; both signing routes must agree.",
         "Trusts the statement's description of the canonical string (the real host is not available); header sets only; parameter order is checked up to two admissible lexicographic orders.", "4 C04"),
 "C01": ("exploration", "e2e", "property-based end-to-end testing through the real listener in a private network namespace: generated policy x attribution record x request against a reference mediation model; bytes counted at mock hosts",
         "The real ProxyServer on 127.0.0.1:3080, attribution records placed in the stand-in audit map for the client's bound source port, mock metadata hosts on the real addresses. For every generated case: upstream bytes > 0 only if the reference permits the relay, at the recorded destination only; refusal classes get exactly 404/421/403 and zero bytes; authorised requests arrive exactly once.",
         "Trusts: the stand-in audit map mirrors the kernel map's lookup/remove contract; the reference RBAC/authorizer models; the 500 and unknown-caller classes are not reachable from outside on Linux.", "4 C01"),
 "C05": ("exploration", "e2e", "property-based end-to-end testing with adversarial header multisets; oracle on the raw bytes captured at the mock host",
         "Generated requests carrying 0-3 spoofed copies of the three proxy-owned headers in any letter case and position; the raw upstream bytes must contain exactly one claims line (the record's elevation), exactly one current RFC 1123 date line, and on signed requests exactly one verifying authorization line and none of the client's values.",
         "Trusts the raw HTTP reader of the mock host; date tolerance of 5 s around the harness clock; requests without a latched key or signature-exempt are outside the authorization clause.", "4 C05"),
 "C14": ("exploration", "e2e", "property-based end-to-end differential testing of both legs (client bytes vs host bytes) incl. concurrent keep-alive connections and keep-alive storms",
         "Generated exchanges (methods, header multisets, bodies up to the limit as Content-Length or chunked, responses with all three framings, arbitrary write boundaries, late terminators) on 1-6 concurrent keep-alive connections; byte comparison of what the host received and what the client received, modulo the documented exceptions; every response carries the tag of its request.",
         "Trusts the raw HTTP reader/writer; trailers, 1xx and upgrade are outside the statement and not generated; schedule-dependent failures are searched by storms, not enumerated.", "4 C14"),
 "C15": ("exploration", "e2e", "property-based end-to-end boundary testing around both size limits with Content-Length and chunked framing",
         "Body lengths at and around 100 KiB and (for the two exempt uploads in any letter case) 100 MiB, declared or chunked; over the limit: 4xx and zero bytes at the mock; at or under: relayed intact.",
         "Trusts limit_ref derived from the statement; the 100 MiB class is sampled thinly in the quick tier (about 1% of cases).", "4 C15"),
 "C06": ("exploration", "ebpfsim", "property-based stateful testing of the unmodified kernel program compiled for user space against a model of the documented helper/map semantics, differential against a Rust reference model; the agent's own encoders/decoders run on the program's bytes",
         "Histories of policy updates, connect4 runs, tcp_connect kprobe runs (interleaved between tasks), aborts and agent-side accepts; rewritten iff protected and not the agent; record iff rewritten, decoding to uid/tgid/(uid==0)/original destination through the agent's own structs; layout sizes compared with the agent's arrays.",
         "The user-space model of BPF helpers/maps is the documented semantics, not the kernel: verifier acceptance, attachment and real LRU behaviour are outside it.", "4 C06"),
 "C07": ("exploration", "e2e", "property-based stateful (history) testing against a model of single-use records; lookup/remove trace of the stand-in audit map",
         "Generated histories of Open (fresh or reused source port, with or without record) / Request / Overwrite / Close / concurrent Batch over 5 identities whose IMDS rules make every decision reveal whose claims were used; model port -> pending record; trace must show lookup then remove at accept.",
         "Trusts that SO_LINGER 0 + explicit bind reproduces source-port reuse; the stand-in audit map's trace.", "4 C07"),
 "C08": ("fault_enumeration", "crash", "crash-point enumeration by strace fault injection (SIGKILL at the N-th syscall) of the real key keeper, over scenarios and host-fault scripts; invariants over host state, key directory and the behaviour of a restarted agent",
         "For every (scenario, host-fault script) the kill point N ranges over the file-system/socket/descriptor-writing syscalls from the first status poll to past the first signed request - every N in the thorough tier, a seeded stratified sample in the quick tier. The parent's reference host checks at the arrival of each attestation that the key file is already complete and equal; after the kill no key file is corrupt, a latched key is in the store, and a restarted agent authenticates (without a new key when the latched one is stored).",
         "Process death at syscall boundaries only (no power loss / fsync); the reference host stands for the WireServer; strace's per-tracee injection counter.", "4 C08"),
 "C09": ("exploration", "keeper", "property-based stateful testing of the real KeyKeeper against a reference secure-channel host; snapshots at poll boundaries compared with a function of the latest document",
         "Histories of status documents (1.0/2.0, flips, rule replacement/removal, rotation) and per-step host failures served to the real KeyKeeper (5 ms polls); after every stable step the public getters and the redirect-policy trace must equal the reference interpretation of the latest document; failed status polls change nothing.",
         "Trusts the reference host (DESIGN.md A.3) and the feature-guarded redirect-policy trace; 'enabled without authorizationRules' is counted as under-specified.", "4 C09"),
 "C10": ("exploration", "keeper", "schedule exploration with an owned-schedule executor (hand-polled futures on a current-thread runtime), a multi-thread stress engine and key-keeper histories with a continuous signer + verification of every emitted MAC at the mock host under the key registered for the announced id",
         "Interleavings of the four signing call sites with update_key / clear_key generated as schedule vectors; every signed request the host receives must verify under the key registered for the key id it announces.",
         "Only interleavings expressible as polls of operation futures and actor drains on one thread; multi-core effects are not modelled (the shared state is message passing).", "4 C10"),
 "C11": ("exploration", "e2e", "property-based history testing: reference multiset of denials vs the published failed-authorization summary (getter and status.json)",
         "Generated request histories (repeats, concurrent batches) against rule sets in each mode; per request enforce -> 403 and zero bytes, audit -> relayed like an allowed request, disabled -> relayed; afterwards the summary and the status.json of a real status task equal the reference multiset exactly.",
         "Trusts the reference RBAC model; rule sets with unique names and URLs without duplicate keys (fully specified decisions).", "4 C11"),
 "C12": ("exploration", "keeper", "property-based history testing with a taint search of every sink for every key the host ever delivered",
         "Run histories (latch, rotation, malformed key responses, status failures, restarts) with production logging, event logger and status task, interleaved with client traffic incl. /provision; every log/event/status/rule-dump/console/stdout byte and every byte returned to a client is searched for each delivered key in six encodings; key directory mode/owner checked; a second engine reads the strace log of the real key keeper and checks that chmod 0700 of the key directory precedes the first file creation in it.",
         "Absence is only shown on explored histories; kernel logs are out of reach; one known finding (Error::Hex echo into the agent log and stdout) is tolerated by exact signature.", "4 C12"),
 "C13": ("exploration", "pure+e2e+keeper", "property-based testing and generated hostile inputs with a process-wide panic hook as oracle: direct calls, hostile requests/callers through the listener, hostile host replies through the host clients and the key keeper",
         "Three engines: (A) the truncation and canonicalisation functions with multi-byte characters placed at every in-character position around bytes 1024/4096 and obs-text header bytes; (B) RFC-valid but hostile requests and freshly exec'ed callers with long multi-byte names/command lines through the real listener, canary request and status publication afterwards; (C) mutated/mis-encoded/odd-length host replies to every host call. Any recorded panic is a violation; every valid request must get a response.",
         "hyper's own limits bound what reaches the handlers; liveness is bounded (canary, status.json timestamp).", "4 C13"),
 "C16": ("exploration", "keeper", "schedule exploration with the owned-schedule executor; exact reference model on sequential histories, possibility sets on interleaved ones; inode/content watcher for status.tag",
         "Readiness reports, resets, deadline, channel-state updates and queries (direct and GET /provision with ancient/current/far-future ticks) either sequentially (exact oracle: flags + finished tick model) or under generated schedules (possibility sets from which operations had definitely/possibly happened); a watcher thread checks that one inode of status.tag never shows two contents and every content is a complete message.",
         "Interleavings expressible by the executor only; the provision files live in the configured key directory of the worker's private tmpfs.", "4 C16"),
 "C17": ("exploration", "setuprig", "property-based stateful testing of the real setup binary in an overlay-on-root chroot against an in-memory file-map model; upper-directory diff as containment oracle; stand-in systemctl log with file hashes as ordering oracle",
         "Generated initial states and command sequences (incl. the backup -> install other content -> restore round trip) run with the real proxy_agent_setup binary built from /repo; after every command the four system files, the backup folder and the package equal the model byte for byte and mode for mode, every changed path of the overlay's upper layer is an allowed one, and the service-manager calls are the expected sequence with 'stop' before the first and 'start' after the last file change.",
         "Only the tool's own contract (not the extension's orchestration); systemctl is a stand-in; partial installs get containment/no-crash checks only; the CLI cannot express restore without backup deletion.", "4 C17"),
 "C18": ("exploration", "telemetry", "property-based testing of the real EventReader on a paused-clock runtime against a raw mock; bodies parsed with an independent XML parser (xml-rs); marker multiset as at-most-once oracle",
         "Generated event files (hostile markup, CDATA terminators, non-BMP text, sizes around the 64 KiB batch limit and single events around it) and upload failure patterns; every POST body must be < 64 KiB, parse as TelemetryData/Provider/Event*, carry each event's text as data exactly, never repeat a marker across accepted or differing batches; oversize events appear nowhere, all others are posted (and accepted unless five attempts failed); the run terminates and the consumed files are gone.",
         "Virtual time for the retry sleeps; the size band 1200..2600 bytes of fixed per-event parameters is not asserted either way.", "4 C18"),
 "C19": ("exploration", "pure", "property-based stateful testing of the three bounded stores with bound invariants checked after every operation",
         "Histories of writes / multi-line writes / restarts on rolling logs left at or below the bound, sequences of rule-dump writes with varying max on pre-populated directories, and event bursts / reader consumption / flush waits on pre-populated event directories; after every step the count and size bounds hold, the oldest dumps go first, and a flush at the cap creates no file.",
         "Instance APIs on scratch directories; leftover files come from an earlier run with the same settings.", "4 C19"),
 "C20": ("exploration", "pure", "exhaustive enumeration of all observation sequences to length 22 + property-based generation of long runs, against a reference automaton and trace predicates",
         "All 2^22 success/failure sequences (every shorter one is a prefix; predicates checked per step) plus generated sequences crossing the 20-failure threshold and the counters' saturation point, and generated notification histories, against a reference automaton, the statement's trace predicates and a reference rate limiter.",
         "Trusts: StatusState::update_state and ServiceState::update_service_state_entry are the only deciders of the reported health / notifications (how service_main uses them is not covered).", "4 C20"),
}
NOT_YET = {}
props = [json.loads(l) for l in open("/verif/properties.jsonl")]
hooks = subprocess.run(["git", "-C", "/repo", "log", "--format=%H %s"], capture_output=True, text=True).stdout.splitlines()
hook_commits = [l.split()[0] for l in hooks if " verif hook:" in l]
checks = []
na = []
for p in props:
    pid = p["id"]
    if pid in CLAIMED:
        level, engine, technique, text, note, ref = CLAIMED[pid]
        checks.append({
            "property_id": pid,
            "quick_cmd": f"./check {pid} quick",
            "thorough_cmd": f"./check {pid} thorough",
            "evidence_file": f"/verif/evidence/{pid}.json",
            "replay_cmd_template": f"./check {pid} quick --replay {{path}}",
            "engine": engine,
            "level_claimed": {"category": level, "text": text, "design_ref": "DESIGN.md section " + ref},
            "level_note": note,
            "technique": technique + (" + coverage-guided libFuzzer campaign over the same strategies and oracle (thorough tier; its merged corpus is replayed in the quick tier)" if pid in ("C02", "C03", "C04", "C06", "C13", "C20") else ""),
        })
    else:
        na.append({"property_id": pid, "reason": NOT_YET.get(pid, "check not built yet in this round (designed in DESIGN.md section 4); not claimed until its check runs clean on the unchanged tree")})
m = {
 "version": 1,
 "setup_cmd": "cd /verif/harness && CARGO_NET_OFFLINE=true cargo build --release --offline --bins",
 "hooks": {
   "guard": "cargo feature `verif` (azure-proxy-agent and ProxyAgentExt packages)",
   "enable": "the harness crate depends on /repo/proxy_agent and /repo/proxy_agent_extension by path with features = [\"verif\"]; ./check rebuilds it from the current working tree on every run",
   "baseline_off_cmd": "cd /repo && cargo nextest run --workspace --no-fail-fast --tool-config-file pb:/w/lib/nextest.toml --profile pb --test-threads 8 --offline",
   "source_commits": hook_commits,
   "add_only": True,
 },
 "engines": [
   {"name": "e2e", "path": "harness/src/bin/e2e.rs", "serves_properties": ["C01", "C03", "C04", "C05", "C07", "C10", "C11", "C13", "C14", "C15"], "kind_free_text": "real ProxyServer in a private network+mount namespace, mock metadata hosts on the real addresses, raw HTTP client with stand-in attribution records; proptest-generated cases"},
   {"name": "crash", "path": "harness/src/bin/crash.rs", "serves_properties": ["C08", "C12"], "kind_free_text": "parent = reference host + strace orchestration; child = real KeyKeeper on a current-thread runtime; SIGKILL injected at the N-th syscall"},
   {"name": "ebpfsim", "path": "harness/src/bin/ebpfsim.rs", "serves_properties": ["C06"], "kind_free_text": "unmodified linux-ebpf/ebpf_cgroup.c compiled with clang against shim headers + C model of helpers/maps (harness/build.rs, harness/csrc), driven from Rust"},
   {"name": "setuprig", "path": "harness/src/bin/setuprig.rs", "serves_properties": ["C17"], "kind_free_text": "real proxy_agent_setup binary chroot'ed into overlayfs(lower=/) in a private mount namespace + file-map model"},
   {"name": "telemetry", "path": "harness/src/bin/telemetry.rs", "serves_properties": ["C18"], "kind_free_text": "real EventReader on tokio's paused clock + raw mock host + xml-rs"},
   {"name": "keeper", "path": "harness/src/bin/keeper.rs", "serves_properties": ["C09", "C10", "C12", "C13", "C16"], "kind_free_text": "real KeyKeeper / shared-state actors against a reference secure-channel host in a private namespace; owned-schedule executor for schedule properties"},
   {"name": "libfuzzer", "path": "fuzz/", "serves_properties": ["C02", "C03", "C04", "C06", "C13", "C20"], "kind_free_text": "cargo-fuzz / libFuzzer targets (ASan; for C06 also the C program with ASan + trapping UBSan): the 64-bit words of the input select case components through the same proptest strategies (harness/src/words.rs), the same oracles decide; thorough tier runs 8 jobs with a fixed number of executions, the committed merged corpus fuzz/seeds/ is also evaluated by every quick run through the plain harness"},
   {"name": "pure", "path": "harness/src/bin/pure.rs", "serves_properties": ["C02", "C03", "C04", "C13", "C19", "C20"], "kind_free_text": "in-process proptest runners over the agent's public functions with independent reference models"},
 ],
 "checks": checks,
 "not_applicable": na,
 "notes": "All checks are property-based tests / generated search with explicit oracles (see DESIGN.md). ./check exits 0 (held), 1 (VIOLATION line) or 2 (inconclusive: build failure, watchdog).",
}
json.dump(m, open("/verif/MANIFEST.json", "w"), indent=1)
print("claimed", [c["property_id"] for c in checks])
