#!/usr/bin/env python3
"""Regenerates MANIFEST.json from the table below (kept in one place so the manifest stays valid)."""
import json, subprocess

CLAIMED = {
 "C02": ("exploration", "pure", "property-based differential testing (proptest) against an independent reference RBAC evaluator + metamorphic relations",
         "Generated rule documents x claims x URLs through the agent's own serde types, from_authorization_item and is_allowed, compared with a reference evaluator written from the statement (admissible sets where the statement is silent), plus permutation / case / rebuild / mode-swap metamorphic relations. Exploration: 2.4e5 cases quick, 2e7 thorough; no proof of absence.",
         "Trusts: the reference evaluator (80 lines, DESIGN.md A.1); rule documents arrive as JSON the agent's serde types accept; identity attributes compare as exact strings.", "4 C02"),
 "C03": ("exploration", "pure", "property-based differential testing against a reference authorizer table, constant oracle Forbidden for non-elevated callers / self destination",
         "proxy_authorizer::authorize and get_authorizer on generated (rule set, claims, URL, destination) against the reference table; the C03 statement is asserted directly (non-elevated -> Forbidden on WireServer/HostGAPlugin under every rule set, self destination always Forbidden).",
         "Pure half only sees the authorizer functions; that the listener calls them with the record's destination and claims is covered by the end-to-end rig (C01).", "4 C03"),
 "C04": ("exploration", "pure", "property-based differential testing of the canonical string and MAC against an independent canonicaliser + hand-written HMAC-SHA256; metamorphic single-component changes; two-route agreement",
         "as_sig_input and build_request on generated requests compared byte-for-byte with an independent canonicaliser (exact parameter multiset, either admissible order) and an independent HMAC; both signing routes must agree.",
         "Trusts the statement's description of the canonical string (the real host is not available); header sets only; parameter order is checked up to two admissible lexicographic orders.", "4 C04"),
 "C20": ("exploration", "pure", "exhaustive enumeration of all observation sequences to length 22 + property-based generation of long runs, against a reference automaton and trace predicates",
         "All 2^22 success/failure sequences (every shorter one is a prefix; predicates checked per step) plus generated sequences crossing the 20-failure threshold and the counters' saturation point, and generated notification histories, against a reference automaton, the statement's trace predicates and a reference rate limiter.",
         "Trusts: StatusState::update_state and ServiceState::update_service_state_entry are the only deciders of the reported health / notifications (how service_main uses them is not covered).", "4 C20"),
}
NOT_YET = {}
props = [json.loads(l) for l in open("/verif/properties.jsonl")]
hooks = subprocess.run(["git", "-C", "/repo", "log", "--format=%H %s"], capture_output=True, text=True).stdout.splitlines()
hook_commits = [l.split()[0] for l in hooks if " verif hook:" in l]
checks = []
na = []
for p in props:
    pid = p["id"]
    if pid in CLAIMED:
        level, engine, technique, text, note, ref = CLAIMED[pid]
        checks.append({
            "property_id": pid,
            "quick_cmd": f"./check {pid} quick",
            "thorough_cmd": f"./check {pid} thorough",
            "evidence_file": f"/verif/evidence/{pid}.json",
            "replay_cmd_template": f"./check {pid} quick --replay {{path}}",
            "engine": engine,
            "level_claimed": {"category": level, "text": text, "design_ref": "DESIGN.md section " + ref},
            "level_note": note,
            "technique": technique,
        })
    else:
        na.append({"property_id": pid, "reason": NOT_YET.get(pid, "check not built yet in this round (designed in DESIGN.md section 4); not claimed until its check runs clean on the unchanged tree")})
m = {
 "version": 1,
 "setup_cmd": "cd /verif/harness && CARGO_NET_OFFLINE=true cargo build --release --offline --bins",
 "hooks": {
   "guard": "cargo feature `verif` (azure-proxy-agent and ProxyAgentExt packages)",
   "enable": "the harness crate depends on /repo/proxy_agent and /repo/proxy_agent_extension by path with features = [\"verif\"]; ./check rebuilds it from the current working tree on every run",
   "baseline_off_cmd": "cd /repo && cargo nextest run --workspace --no-fail-fast --tool-config-file pb:/w/lib/nextest.toml --profile pb --test-threads 8 --offline",
   "source_commits": hook_commits,
   "add_only": True,
 },
 "engines": [
   {"name": "pure", "path": "harness/src/bin/pure.rs", "serves_properties": ["C02", "C03", "C04", "C19", "C20"], "kind_free_text": "in-process proptest runners over the agent's public functions with independent reference models"},
 ],
 "checks": checks,
 "not_applicable": na,
 "notes": "All checks are property-based tests / generated search with explicit oracles (see DESIGN.md). ./check exits 0 (held), 1 (VIOLATION line) or 2 (inconclusive: build failure, watchdog).",
}
json.dump(m, open("/verif/MANIFEST.json", "w"), indent=1)
print("claimed", [c["property_id"] for c in checks])
