//! Compiles the UNMODIFIED /repo/linux-ebpf/ebpf_cgroup.c (+ socket.h) for user space, against the
//! shim headers in csrc/shim and the map/helper model in csrc/model.c, into a static library that
//! the `ebpfsim` binary links (C06). Rebuilt whenever the kernel program changes.
use std::path::PathBuf;
use std::process::Command;

fn main() {
    let out = PathBuf::from(std::env::var("OUT_DIR").unwrap());
    let manifest = PathBuf::from(std::env::var("CARGO_MANIFEST_DIR").unwrap());
    let src = "/repo/linux-ebpf/ebpf_cgroup.c";
    println!("cargo:rerun-if-changed={}", src);
    println!("cargo:rerun-if-changed=/repo/linux-ebpf/socket.h");
    println!("cargo:rerun-if-changed=csrc/wrap.c");
    println!("cargo:rerun-if-changed=csrc/model.c");
    println!("cargo:rerun-if-changed=csrc/shim/bpf/bpf_helpers.h");
    println!("cargo:rerun-if-changed=csrc/shim/bpf/bpf_tracing.h");
    // VERIF_C_SANITIZE (set by the fuzz build only), e.g. "address,fuzzer-no-link": instrument the kernel program and the
    // map model; undefined behaviour traps (no runtime needed)
    println!("cargo:rerun-if-env-changed=VERIF_C_SANITIZE");
    let san = std::env::var("VERIF_C_SANITIZE").unwrap_or_default();
    let common = ["-O1", "-g", "-fPIC", "-fno-omit-frame-pointer", "-Wno-unused-variable", "-Wno-unused-function"];
    let objs = [("wrap.c", "wrap.o"), ("model.c", "model.o")];
    for (c, o) in objs {
        let mut cmd = Command::new("clang");
        cmd.args(common)
            .arg(format!("-DEBPF_SOURCE=\"{}\"", src))
            .arg("-I")
            .arg(manifest.join("csrc/shim"))
            .arg("-I")
            .arg("/repo/linux-ebpf")
            .args(if san.is_empty() { vec![] } else { vec![format!("-fsanitize={}", san), "-fsanitize=undefined".to_string(), "-fsanitize-trap=undefined".to_string(), "-fno-sanitize=alignment".to_string()] })
            .arg("-c")
            .arg(manifest.join("csrc").join(c))
            .arg("-o")
            .arg(out.join(o));
        let st = cmd.status().expect("clang not runnable");
        if !st.success() {
            panic!("clang failed on {}", c);
        }
    }
    let lib = out.join("libebpfsim.a");
    let _ = std::fs::remove_file(&lib);
    let st = Command::new("ar").arg("crs").arg(&lib).arg(out.join("wrap.o")).arg(out.join("model.o")).status().expect("ar not runnable");
    if !st.success() {
        panic!("ar failed");
    }
    println!("cargo:rustc-link-search=native={}", out.display());
}
