/* LD_PRELOAD shim for the end-to-end workers of C05: the wall clock (CLOCK_REALTIME) of the worker process - harness
 * and agent share it - can be moved forward by the harness, so that "the date is the proxy's current time" is
 * checked across minutes, hours and days without waiting for them. The monotonic clock (timers) is untouched. */
#define _GNU_SOURCE
#include <dlfcn.h>
#include <stdint.h>
#include <time.h>

static volatile int64_t shift_ns = 0;

void clockshift_add(int64_t ns) { __atomic_add_fetch(&shift_ns, ns, __ATOMIC_SEQ_CST); }
int64_t clockshift_get(void) { return __atomic_load_n(&shift_ns, __ATOMIC_SEQ_CST); }

int clock_gettime(clockid_t id, struct timespec *ts) {
    static int (*real)(clockid_t, struct timespec *) = 0;
    if (!real)
        real = (int (*)(clockid_t, struct timespec *))dlsym(RTLD_NEXT, "clock_gettime");
    int r = real(id, ts);
    if (r == 0 && id == CLOCK_REALTIME) {
        int64_t s = __atomic_load_n(&shift_ns, __ATOMIC_SEQ_CST);
        if (s) {
            int64_t t = (int64_t)ts->tv_sec * 1000000000LL + ts->tv_nsec + s;
            ts->tv_sec = t / 1000000000LL;
            ts->tv_nsec = t % 1000000000LL;
        }
    }
    return r;
}
