/* Model of the documented BPF helper and map semantics (see /usr/include/linux/bpf.h):
 *  - bpf_get_current_pid_tgid() = (u64)tgid << 32 | pid            (pid = thread id)
 *  - bpf_get_current_uid_gid()  = (u64)gid  << 32 | uid
 *  - BPF_MAP_TYPE_HASH: update of a new key in a full map fails with -E2BIG
 *  - BPF_MAP_TYPE_LRU_HASH: update of a new key in a full map evicts the least recently used entry
 *  - bpf_probe_read = copy, returns 0
 */
#include <linux/bpf.h>
#include <string.h>
#include <stdlib.h>
#include <errno.h>

struct sim_map_info {
    const char *name;
    void *addr;
    unsigned key_size, value_size, max_entries, type;
};
extern struct sim_map_info SIM_MAPS[];
extern const unsigned SIM_MAP_COUNT;

#define MAX_MAPS 8
#define MAX_ENTRIES 1024
#define MAX_KV 64

struct entry {
    int used;
    unsigned long long stamp;
    unsigned char key[MAX_KV];
    unsigned char value[MAX_KV];
};
static struct entry STORE[MAX_MAPS][MAX_ENTRIES];
static unsigned long long CLOCK = 1;
static unsigned long long EVICTIONS = 0;

static __u32 CUR_TGID, CUR_PID, CUR_UID, CUR_GID;

static int map_index(void *map)
{
    for (unsigned i = 0; i < SIM_MAP_COUNT && i < MAX_MAPS; i++)
        if (SIM_MAPS[i].addr == map)
            return (int)i;
    abort();
}

static struct entry *find(int m, const void *key)
{
    for (unsigned i = 0; i < SIM_MAPS[m].max_entries && i < MAX_ENTRIES; i++)
        if (STORE[m][i].used && memcmp(STORE[m][i].key, key, SIM_MAPS[m].key_size) == 0)
            return &STORE[m][i];
    return NULL;
}

void *bpf_map_lookup_elem(void *map, const void *key)
{
    int m = map_index(map);
    struct entry *e = find(m, key);
    if (!e)
        return NULL;
    if (SIM_MAPS[m].type == BPF_MAP_TYPE_LRU_HASH)
        e->stamp = CLOCK++;
    return e->value;
}

long bpf_map_update_elem(void *map, const void *key, const void *value, __u64 flags)
{
    int m = map_index(map);
    struct entry *e = find(m, key);
    if (e && flags == BPF_NOEXIST)
        return -EEXIST;
    if (!e && flags == BPF_EXIST)
        return -ENOENT;
    if (!e) {
        struct entry *lru = NULL;
        for (unsigned i = 0; i < SIM_MAPS[m].max_entries && i < MAX_ENTRIES; i++) {
            if (!STORE[m][i].used) {
                e = &STORE[m][i];
                break;
            }
            if (!lru || STORE[m][i].stamp < lru->stamp)
                lru = &STORE[m][i];
        }
        if (!e) {
            if (SIM_MAPS[m].type != BPF_MAP_TYPE_LRU_HASH)
                return -E2BIG;
            e = lru;
            EVICTIONS++;
        }
        e->used = 1;
        memset(e->key, 0, MAX_KV);
        memcpy(e->key, key, SIM_MAPS[m].key_size);
    }
    memset(e->value, 0, MAX_KV);
    memcpy(e->value, value, SIM_MAPS[m].value_size);
    e->stamp = CLOCK++;
    return 0;
}

long bpf_map_delete_elem(void *map, const void *key)
{
    int m = map_index(map);
    struct entry *e = find(m, key);
    if (!e)
        return -ENOENT;
    e->used = 0;
    /* a deleted element goes back to the map's free list at once and may be handed to an update on another CPU: whatever a
       program still reads through a pointer obtained before the delete is somebody else's data. Model: the slot is overwritten. */
    memset(e->value, 0xA5, sizeof(e->value));
    return 0;
}

__u64 bpf_get_current_pid_tgid(void) { return ((__u64)CUR_TGID << 32) | CUR_PID; }
__u64 bpf_get_current_uid_gid(void) { return ((__u64)CUR_GID << 32) | CUR_UID; }
__u64 bpf_get_socket_cookie(void *ctx) { (void)ctx; return 0x1234; }
long bpf_probe_read(void *dst, __u32 size, const void *unsafe_ptr) { memcpy(dst, unsafe_ptr, size); return 0; }
long bpf_probe_read_kernel(void *dst, __u32 size, const void *unsafe_ptr) { memcpy(dst, unsafe_ptr, size); return 0; }

/* ---- control surface for the Rust side ---- */
void sim_reset(void)
{
    memset(STORE, 0, sizeof(STORE));
    CLOCK = 1;
    EVICTIONS = 0;
}
void sim_set_task(__u32 tgid, __u32 pid, __u32 uid, __u32 gid) { CUR_TGID = tgid; CUR_PID = pid; CUR_UID = uid; CUR_GID = gid; }
unsigned long long sim_evictions(void) { return EVICTIONS; }

static int by_name(const char *name)
{
    for (unsigned i = 0; i < SIM_MAP_COUNT; i++)
        if (strcmp(SIM_MAPS[i].name, name) == 0)
            return (int)i;
    return -1;
}
int sim_map_info(const char *name, unsigned *ks, unsigned *vs, unsigned *max, unsigned *type)
{
    int m = by_name(name);
    if (m < 0) return -1;
    *ks = SIM_MAPS[m].key_size; *vs = SIM_MAPS[m].value_size; *max = SIM_MAPS[m].max_entries; *type = SIM_MAPS[m].type;
    return 0;
}
long sim_map_update(const char *name, const void *key, const void *value) { int m = by_name(name); return m < 0 ? -1 : bpf_map_update_elem(SIM_MAPS[m].addr, key, value, 0); }
long sim_map_delete(const char *name, const void *key) { int m = by_name(name); return m < 0 ? -1 : bpf_map_delete_elem(SIM_MAPS[m].addr, key); }
/* lookup without touching the LRU clock (what a user-space bpf_map_lookup_elem syscall does not do either is not modelled: the agent's lookups do refresh) */
int sim_map_lookup(const char *name, const void *key, void *value_out)
{
    int m = by_name(name);
    if (m < 0) return -1;
    void *v = bpf_map_lookup_elem(SIM_MAPS[m].addr, key);
    if (!v) return -2;
    memcpy(value_out, v, SIM_MAPS[m].value_size);
    return 0;
}
unsigned sim_map_count(const char *name)
{
    int m = by_name(name);
    unsigned n = 0;
    if (m < 0) return 0;
    for (unsigned i = 0; i < SIM_MAPS[m].max_entries && i < MAX_ENTRIES; i++)
        n += STORE[m][i].used ? 1 : 0;
    return n;
}
