/* User-space stand-in for libbpf's bpf_helpers.h: the macros are spelled exactly as libbpf spells
 * them (so that key/value sizes, max_entries and the map type are recoverable with sizeof), the
 * helpers are ordinary functions implemented in model.c from their documentation in
 * /usr/include/linux/bpf.h. */
#ifndef SHIM_BPF_HELPERS_H
#define SHIM_BPF_HELPERS_H

#define SEC(name)
#define __uint(name, val) int (*name)[val]
#define __type(name, val) typeof(val) *name
#define __array(name, val) typeof(val) *name[]
#ifndef __always_inline
#define __always_inline inline __attribute__((always_inline))
#endif
#ifndef NULL
#define NULL ((void *)0)
#endif

void *bpf_map_lookup_elem(void *map, const void *key);
long bpf_map_update_elem(void *map, const void *key, const void *value, __u64 flags);
long bpf_map_delete_elem(void *map, const void *key);
__u64 bpf_get_current_pid_tgid(void);
__u64 bpf_get_current_uid_gid(void);
__u64 bpf_get_socket_cookie(void *ctx);
long bpf_probe_read(void *dst, __u32 size, const void *unsafe_ptr);
long bpf_probe_read_kernel(void *dst, __u32 size, const void *unsafe_ptr);
#define bpf_printk(fmt, ...) ((void)0)

#endif
