/* User-space stand-in for libbpf's bpf_tracing.h (x86-64): first kprobe argument = rdi. */
#ifndef SHIM_BPF_TRACING_H
#define SHIM_BPF_TRACING_H
#define PT_REGS_PARM1(x) ((x)->rdi)
#define BPF_KPROBE(name, args...)                                   \
    name(struct pt_regs *ctx);                                      \
    static __always_inline int ____##name(struct pt_regs *ctx, ##args); \
    int name(struct pt_regs *ctx)                                   \
    {                                                               \
        return ____##name(ctx, (void *)PT_REGS_PARM1(ctx));         \
    }                                                               \
    static __always_inline int ____##name(struct pt_regs *ctx, ##args)
#endif
