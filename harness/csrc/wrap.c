/* One translation unit = the UNMODIFIED kernel program + a table describing its maps.
 * EBPF_SOURCE is given on the command line by build.rs (path under /repo/linux-ebpf). */
#include EBPF_SOURCE

struct sim_map_info {
    const char *name;
    void *addr;
    unsigned key_size, value_size, max_entries, type;
};

#define MAPINFO(m) { #m, &m, sizeof(*(m).key), sizeof(*(m).value), sizeof(*(m).max_entries) / sizeof(int), sizeof(*(m).type) / sizeof(int) }

struct sim_map_info SIM_MAPS[] = {
    MAPINFO(skip_process_map),
    MAPINFO(policy_map),
    MAPINFO(audit_map),
    MAPINFO(local_map),
};
const unsigned SIM_MAP_COUNT = sizeof(SIM_MAPS) / sizeof(SIM_MAPS[0]);

/* entry points for the Rust side */
int sim_run_connect4(struct bpf_sock_addr *ctx) { return connect4(ctx); }

int sim_run_kprobe(__u32 daddr_be, __u16 dport_be, __u16 local_port_host, __u16 family)
{
    struct probe_sock sk;
    __builtin_memset(&sk, 0, sizeof(sk));
    sk.__sk_common.skc_daddr = daddr_be;
    sk.__sk_common.skc_dport = dport_be;
    sk.__sk_common.skc_num = local_port_host;
    sk.__sk_common.skc_family = family;
    struct pt_regs regs;
    __builtin_memset(&regs, 0, sizeof(regs));
    regs.rdi = (unsigned long)&sk;
    return tcp_v4_connect(&regs);
}

unsigned sim_sizeof_sock_addr(void) { return sizeof(struct bpf_sock_addr); }
