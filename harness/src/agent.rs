//! Thin adapters from generated values to the agent's own public types and entry points.

use crate::gen::{GClaims, GDoc};
use azure_proxy_agent::key_keeper::key::AuthorizationItem;
use azure_proxy_agent::proxy::authorization_rules::ComputedAuthorizationItem;
use azure_proxy_agent::proxy::proxy_connection::ConnectionLogger;
use azure_proxy_agent::proxy::Claims;
use std::ffi::OsString;
use std::path::PathBuf;

pub fn to_item(doc: &GDoc) -> AuthorizationItem {
    // through the agent's own serde types, from the JSON text the host would send
    let text = serde_json::to_string(&doc.to_json()).unwrap();
    serde_json::from_str::<AuthorizationItem>(&text).expect("generated rule document must deserialize")
}

pub fn to_computed(doc: &GDoc) -> ComputedAuthorizationItem {
    ComputedAuthorizationItem::from_authorization_item(to_item(doc))
}

pub fn to_claims(c: &GClaims) -> Claims {
    Claims {
        userId: c.uid,
        userName: c.user.clone(),
        userGroups: c.groups.clone(),
        processId: 4242,
        processName: OsString::from(&c.proc_name),
        processFullPath: PathBuf::from(crate::gen::exe_os(&c.exe)),
        processCmdLine: c.cmdline.clone(),
        runAsElevated: c.elevated,
        clientIp: "127.0.0.1".to_string(),
        clientPort: 50000,
    }
}

pub fn is_allowed(item: &ComputedAuthorizationItem, uri: &hyper::Uri, claims: &Claims) -> bool {
    let mut logger = ConnectionLogger::new(0, 0);
    item.is_allowed(&mut logger, uri.clone(), claims.clone())
}
