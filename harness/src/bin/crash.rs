//! C08 — a key is never latched at the host unless the guest can recover it.
//! Parent: reference secure-channel host on loopback + orchestration of `strace` fault injection.
//! Child (VERIF_CHILD=1): the real KeyKeeper on a current-thread runtime; as soon as the shared state
//! holds a key it performs one signed get_goalstate and exits.
//! Thorough: EVERY kill point (n-th file/descriptor/network syscall) between the first status poll
//! and the first signed request, per scenario and host-fault script; quick: a seeded stratified sample.

use gpa_verif::keyhost::{Fault, KeyHost, StatusDoc};
use gpa_verif::mockhost::Mock;
use gpa_verif::report::{h64, Known, Params, Stats, Violation};
use serde::{Deserialize, Serialize};
use std::path::{Path, PathBuf};
use std::process::{Command, Stdio};
use std::time::{Duration, Instant};

fn child_main() -> ! {
    use azure_proxy_agent::host_clients::wire_server_client::WireServerClient;
    use azure_proxy_agent::key_keeper::KeyKeeper;
    use azure_proxy_agent::shared_state::SharedState;
    let base = std::env::var("CHILD_BASE_URL").unwrap();
    let key_dir = PathBuf::from(std::env::var("CHILD_KEY_DIR").unwrap());
    let log_dir = PathBuf::from(std::env::var("CHILD_LOG_DIR").unwrap());
    let port: u16 = std::env::var("CHILD_PORT").unwrap().parse().unwrap();
    let rt = tokio::runtime::Builder::new_current_thread().enable_all().build().unwrap();
    let code = rt.block_on(async move {
        let shared = SharedState::start_all();
        let keeper = KeyKeeper::new(base.parse().unwrap(), key_dir, log_dir, Duration::from_millis(5), &shared);
        tokio::spawn(async move { keeper.poll_secure_channel_status().await });
        let ks = shared.get_key_keeper_shared_state();
        let t0 = Instant::now();
        loop {
            if let Ok(Some(_)) = ks.get_current_key_guid().await {
                break;
            }
            if t0.elapsed() > Duration::from_secs(20) {
                return 3;
            }
            tokio::time::sleep(Duration::from_millis(2)).await;
        }
        // the first signed request
        let ws = WireServerClient::new("127.0.0.1", port, ks.clone());
        match ws.get_goalstate().await {
            Ok(_) => 0,
            Err(_) => 4,
        }
    });
    std::process::exit(code);
}

#[derive(Clone, Copy, Debug, Serialize, Deserialize, Hash, PartialEq, Eq)]
enum Scenario {
    FreshLatch,
    RestartWithKeyOnDisk,
    /// the host names a key that is not in the local store
    Rotation,
    LocalKeyTruncated,
    LocalKeyGarbage,
    LocalKeyWrongGuidInside,
    LocalKeyEmpty,
    /// fresh latch, but the key directory's path is occupied by a regular file until the host has handed out a key once
    /// (the first store fails; the host hands the same pending key out again, as the in-tree server mock does)
    StoreBlockedFirst,
}

#[derive(Clone, Debug, Serialize, Deserialize, Hash, PartialEq, Eq)]
enum HostFaults {
    None,
    StatusErrorFirst,
    AcquireErrorFirst,
    AcquireGarbageFirst,
    AttestErrorFirst,
    AttestResetFirst,
    /// the host latches the key but its reply to the attestation is lost
    AttestLatchedReplyLost,
}

#[derive(Clone, Debug, Serialize, Deserialize, Hash)]
struct Case {
    scenario: Scenario,
    faults: HostFaults,
    /// position of the kill point among the traced syscalls of the dry run; None = no kill (dry runs, replays of recovery failures)
    kill_at: Option<u32>,
    /// how the kill point is addressed to strace, whose injection counters are PER SYSCALL: (syscall name, its k-th invocation)
    #[serde(default)]
    kill_call: Option<(String, u32)>,
    /// the key directory also holds that many complete key files of earlier re-keys (low 4 bits); bit 4: their names sort
    /// after every key the host issues (otherwise before)
    #[serde(default)]
    store_history: u8,
    /// until a key is attested the host hands the SAME pending key out again on every acquire (as the in-tree server mock
    /// does), also to the restarted agent: a crash in the middle of storing it must not get in the way of storing it again
    #[serde(default)]
    reissue: bool,
    /// every restart finds the files of the key directory stamped one hour in the FUTURE (the clock was set back between the
    /// runs: a time correction, a snapshot restore, a boot before time synchronisation)
    #[serde(default)]
    clock_stepped_back: bool,
}

/// stamp every file of the directory one hour ahead of the present
fn stamp_future(dir: &Path) {
    if let Ok(rd) = std::fs::read_dir(dir) {
        for e in rd.flatten() {
            if let Ok(c) = std::ffi::CString::new(e.path().to_string_lossy().as_bytes()) {
                let now = std::time::SystemTime::now().duration_since(std::time::UNIX_EPOCH).map(|d| d.as_secs()).unwrap_or(0) as i64 + 3600;
                let ts = [libc::timespec { tv_sec: now, tv_nsec: 0 }, libc::timespec { tv_sec: now, tv_nsec: 0 }];
                unsafe { libc::utimensat(libc::AT_FDCWD, c.as_ptr(), ts.as_ptr(), 0) };
            }
        }
    }
}

struct Env {
    mock: Mock,
    host: KeyHost,
    port: u16,
    work: PathBuf,
    exe: PathBuf,
}

struct RunResult {
    exit: Option<i32>,
    killed: bool,
    trace: Vec<String>,
    timed_out: bool,
}

fn run_child(env: &Env, key_dir: &Path, kill_call: Option<&(String, u32)>, tag: &str) -> RunResult {
    let log = env.work.join(format!("strace-{}.log", tag));
    let _ = std::fs::remove_file(&log);
    let mut cmd = Command::new("strace");
    // every file-system and socket call; of the descriptor class only the calls with an externally visible
    // effect (the readiness-polling calls epoll_wait/epoll_ctl would swamp the enumeration with idle points)
    const SET: &str = "%file,%network,read,write,writev,pwrite64,close,fsync,fdatasync,ftruncate,fcntl,dup,dup2,dup3,pipe2,lseek";
    cmd.arg("-f").arg("-qq").arg("-o").arg(&log).arg("-e").arg(format!("trace={}", SET));
    if let Ok(extra) = std::env::var("VERIF_STRACE_INJECT") {
        // e.g. slow chown/chmod (delay injection): the order of effects must not depend on how long a call takes
        if !extra.is_empty() {
            cmd.arg("-e").arg(format!("inject={}", extra));
        }
    }
    if let Some((call, k)) = kill_call {
        // strace counts invocations separately for every syscall of an injection set: name the one call
        cmd.arg("-e").arg(format!("inject={}:signal=SIGKILL:when={}", call, k));
    }
    cmd.arg(&env.exe)
        .env("VERIF_CHILD", "1")
        .env("CHILD_BASE_URL", format!("http://127.0.0.1:{}/", env.port))
        .env("CHILD_PORT", env.port.to_string())
        .env("CHILD_KEY_DIR", key_dir)
        .env("CHILD_LOG_DIR", env.work.join("logs"))
        .stdin(Stdio::null())
        .stdout(Stdio::null())
        .stderr(Stdio::null());
    let mut child = match cmd.spawn() {
        Ok(c) => c,
        Err(_) => return RunResult { exit: None, killed: false, trace: vec![], timed_out: true },
    };
    let t0 = Instant::now();
    let mut timed_out = false;
    let status = loop {
        match child.try_wait() {
            Ok(Some(s)) => break Some(s),
            Ok(None) => {
                if t0.elapsed() > Duration::from_secs(40) {
                    let _ = child.kill();
                    let _ = child.wait();
                    timed_out = true;
                    break None;
                }
                std::thread::sleep(Duration::from_millis(2));
            }
            Err(_) => break None,
        }
    };
    let trace: Vec<String> = std::fs::read_to_string(&log).unwrap_or_default().lines().map(|l| l.to_string()).collect();
    let killed = trace.iter().rev().take(3).any(|l| l.contains("killed by SIGKILL")) || status.map(|s| s.code().is_none()).unwrap_or(false);
    RunResult { exit: status.and_then(|s| s.code()), killed, trace, timed_out }
}

fn reset_host(env: &Env, key_dir: &Path) {
    env.host.with(|s| {
        s.issued.clear();
        s.delivered.clear();
        s.latched = None;
        s.doc = Some(StatusDoc::V1 { state: "wireserver".into() }.to_json());
        s.status_fault = None;
        s.acquire_faults.clear();
        s.attest_faults.clear();
        s.pending = None;
        s.signature_failures.clear();
        s.attest_arrival_violations.clear();
        s.guest_key_dir = Some(key_dir.to_path_buf());
        s.counters = Default::default();
        s.reissue_pending = false;
        s.pending_issue = None;
    });
}

/// prepare the scenario; returns Err for set-up problems (inconclusive)
fn prepare(env: &Env, c: &Case, key_dir: &Path) -> Result<(), String> {
    let _ = std::fs::remove_dir_all(key_dir);
    std::fs::create_dir_all(key_dir).map_err(|e| e.to_string())?;
    reset_host(env, key_dir);
    if c.reissue {
        env.host.with(|s| s.reissue_pending = true);
    }
    if c.scenario == Scenario::StoreBlockedFirst {
        let _ = std::fs::remove_dir_all(key_dir);
        std::fs::write(key_dir, b"not a directory").map_err(|e| e.to_string())?;
        env.host.with(|s| s.reissue_pending = true);
    } else if c.scenario != Scenario::FreshLatch {
        // a clean run latches a key and leaves it on disk
        let r = run_child(env, key_dir, None, "prep");
        if r.exit != Some(0) {
            return Err(format!("preparation run failed: exit {:?}", r.exit));
        }
        let latched = env.host.with(|s| s.latched.clone()).ok_or("preparation run latched nothing")?;
        let f = key_dir.join(format!("{}.key", latched));
        match c.scenario {
            Scenario::RestartWithKeyOnDisk | Scenario::FreshLatch | Scenario::StoreBlockedFirst => {}
            Scenario::Rotation => {
                // somebody else now holds the channel: the host names a key this guest never stored
                env.host.with(|s| {
                    let (g, k) = s.new_key();
                    s.issued.insert(g.clone(), k);
                    s.latched = Some(g);
                });
            }
            Scenario::LocalKeyTruncated => {
                let b = std::fs::read(&f).map_err(|e| e.to_string())?;
                std::fs::write(&f, &b[..b.len() / 2]).map_err(|e| e.to_string())?;
            }
            Scenario::LocalKeyGarbage => std::fs::write(&f, b"\x00\xff not json at all").map_err(|e| e.to_string())?,
            Scenario::LocalKeyEmpty => std::fs::write(&f, b"").map_err(|e| e.to_string())?,
            Scenario::LocalKeyWrongGuidInside => {
                let other = serde_json::json!({"authorizationScheme": "Azure-HMAC-SHA256", "guid": "11111111-1111-1111-1111-111111111111", "issued": "2020-01-01T00:00:00Z", "key": "00112233445566778899AABBCCDDEEFF00112233445566778899AABBCCDDEEFF"});
                std::fs::write(&f, serde_json::to_vec_pretty(&other).unwrap()).map_err(|e| e.to_string())?;
            }
        }
    }
    if c.store_history & 15 != 0 && c.scenario != Scenario::StoreBlockedFirst {
        // key files of earlier re-keys, complete and valid, which nobody refers to any more
        for i in 0..(c.store_history & 15) {
            let g = if c.store_history & 16 != 0 { format!("ffffffff-ffff-4fff-bfff-fffffffffff{:x}", i) } else { format!("00000000-0000-4000-8000-00000000000{:x}", i) };
            let doc = serde_json::json!({"authorizationScheme": "Azure-HMAC-SHA256", "guid": g, "issued": "2020-01-01T00:00:00Z", "key": format!("{:064X}", 0x1000u64 + i as u64)});
            std::fs::write(key_dir.join(format!("{}.key", g)), serde_json::to_vec_pretty(&doc).unwrap()).map_err(|e| e.to_string())?;
        }
    }
    env.host.with(|s| {
        s.counters = Default::default();
        s.signature_failures.clear();
        s.attest_arrival_violations.clear();
        let err = || Fault::Status(500, "internal error".into(), "text/plain".into());
        match c.faults {
            HostFaults::None => {}
            HostFaults::StatusErrorFirst => {}
            HostFaults::AcquireErrorFirst => s.acquire_faults.push_back(err()),
            HostFaults::AcquireGarbageFirst => s.acquire_faults.push_back(Fault::Garbage("{\"guid\":".into(), "application/json".into())),
            HostFaults::AttestErrorFirst => s.attest_faults.push_back(err()),
            HostFaults::AttestResetFirst => s.attest_faults.push_back(Fault::Reset),
            HostFaults::AttestLatchedReplyLost => s.attest_faults.push_back(Fault::ResetAfterCommit),
        }
    });
    if c.clock_stepped_back && key_dir.is_dir() {
        stamp_future(key_dir);
    }
    Ok(())
}

fn check_key_files(key_dir: &Path) -> Result<(), (String, String)> {
    if let Ok(rd) = std::fs::read_dir(key_dir) {
        for e in rd.flatten() {
            let p = e.path();
            if p.extension().map(|x| x == "key").unwrap_or(false) {
                let b = std::fs::read(&p).unwrap_or_default();
                let ok = serde_json::from_slice::<serde_json::Value>(&b).ok().map(|v| v["guid"].as_str().map(|g| Some(g) == p.file_stem().and_then(|s| s.to_str())).unwrap_or(false) && v["key"].is_string()).unwrap_or(false);
                if !ok {
                    return Err(("keystore:truncated-or-corrupt-file-under-a-final-name".into(), format!("{} ({} bytes) is not a complete key document", p.display(), b.len())));
                }
            }
        }
    }
    Ok(())
}

/// StoreBlockedFirst: once the host has handed out a key, the file occupying the key directory's path gives way to a directory
fn arm_unblock(env: &Env, c: &Case, key_dir: &Path) {
    if c.scenario != Scenario::StoreBlockedFirst {
        return;
    }
    let h = env.host.clone();
    let kd = key_dir.to_path_buf();
    std::thread::spawn(move || {
        for _ in 0..200000 {
            if h.with(|s| s.counters.acquire_ok) >= 1 {
                std::thread::sleep(Duration::from_millis(30));
                let _ = std::fs::remove_file(&kd);
                let _ = std::fs::create_dir_all(&kd);
                break;
            }
            std::thread::sleep(Duration::from_micros(200));
        }
    });
}

/// one crash experiment; returns (non-trivial?, syscall line at the kill point)
fn experiment(env: &Env, c: &Case, stats: &mut Stats) -> Result<(bool, String), (String, String)> {
    let key_dir = env.work.join("keys");
    prepare(env, c, &key_dir).map_err(|e| ("inconclusive".to_string(), e))?;
    let damaged = matches!(c.scenario, Scenario::LocalKeyTruncated | Scenario::LocalKeyGarbage | Scenario::LocalKeyWrongGuidInside | Scenario::LocalKeyEmpty);
    // the scenario's pre-existing damaged file is not the agent's doing: judge only files the agent (re)wrote
    let pre_damaged: Option<(PathBuf, Vec<u8>)> = if damaged {
        env.host.with(|s| s.latched.clone()).map(|g| key_dir.join(format!("{}.key", g))).filter(|p| p.exists()).map(|p| (p.clone(), std::fs::read(&p).unwrap_or_default()))
    } else {
        None
    };
    if c.faults == HostFaults::StatusErrorFirst {
        env.host.with(|s| s.status_fault = Some(Fault::Status(500, "busy".into(), "text/plain".into())));
        // the fault is lifted after the first status request by a helper thread
        let h = env.host.clone();
        std::thread::spawn(move || {
            for _ in 0..20000 {
                if h.with(|s| s.counters.status_total) >= 1 {
                    h.with(|s| s.status_fault = None);
                    break;
                }
                std::thread::sleep(Duration::from_micros(200));
            }
        });
    }
    arm_unblock(env, c, &key_dir);
    let latched_before = env.host.with(|s| s.latched.clone());
    let r = run_child(env, &key_dir, c.kill_call.as_ref(), "kill");
    if r.timed_out {
        return Err(("inconclusive".into(), "crash run exceeded its watchdog".into()));
    }
    let kill_line = r.trace.iter().rev().find(|l| !l.contains("+++") && !l.contains("---")).cloned().unwrap_or_default();
    if std::env::var("VERIF_C08_DEBUG").is_ok() {
        let files: Vec<(String, u64)> = std::fs::read_dir(&key_dir).map(|rd| rd.flatten().map(|e| (e.file_name().to_string_lossy().to_string(), e.metadata().map(|m| m.len()).unwrap_or(0))).collect()).unwrap_or_default();
        eprintln!("[c08-debug] {:?} killed={} exit={:?} kill_line={} files={:?}", c, r.killed, r.exit, kill_line, files);
    }
    let after_acquire = env.host.with(|s| s.counters.acquire_ok) > 0;
    let attest_answered = env.host.with(|s| s.counters.attest_ok) > 0;
    let nontrivial = (r.killed && after_acquire && !attest_answered) || damaged;
    stats.class(if r.killed { "run:killed" } else { "run:completed-before-the-kill-point" });
    // I4: at the instant an attestation request arrived the key was on disk, complete and equal
    if let Some(v) = env.host.with(|s| s.attest_arrival_violations.first().cloned()) {
        return Err(("ordering:key-attested-before-it-was-stored-and-verified".into(), format!("{} (kill point {:?}: {})", v, c.kill_at, kill_line)));
    }
    // I2: no truncated or corrupt file under a final name (other than the scenario's own damaged file, if untouched)
    if let Err((s, d)) = check_key_files(&key_dir) {
        let untouched = pre_damaged.as_ref().map(|(p, b)| std::fs::read(p).map(|now| now == *b).unwrap_or(false) && d.contains(&p.display().to_string())).unwrap_or(false);
        if !untouched {
            return Err((s, format!("{} after the kill at {:?}: {}", d, c.kill_at, kill_line)));
        }
    }
    // I1: what the host regards as attested is in the store
    let (latched, issued) = env.host.with(|s| (s.latched.clone(), s.issued.clone()));
    if let Some(g) = &latched {
        if Some(g) != latched_before.as_ref() || c.scenario == Scenario::RestartWithKeyOnDisk {
            let f = key_dir.join(format!("{}.key", g));
            let ok = std::fs::read(&f).ok().and_then(|b| serde_json::from_slice::<serde_json::Value>(&b).ok()).map(|v| v["guid"].as_str() == Some(g.as_str()) && v["key"].as_str().map(|k| k.to_string()) == issued.get(g).cloned()).unwrap_or(false);
            if !ok && c.scenario != Scenario::Rotation {
                return Err(("keystore:host-latched-a-key-the-guest-cannot-recover".into(), format!("host latched {} but {} does not hold it (kill point {:?}: {})", g, f.display(), c.kill_at, kill_line)));
            }
        }
    }
    // I3: a fresh agent on that directory authenticates, without a new key if one was latched and stored
    let acquires_before = env.host.with(|s| s.counters.acquire_total);
    let stored_latched = latched.as_ref().map(|g| {
        std::fs::read(key_dir.join(format!("{}.key", g))).ok().and_then(|b| serde_json::from_slice::<serde_json::Value>(&b).ok()).map(|v| v["guid"].as_str() == Some(g.as_str()) && v["key"].as_str().map(|k| k.to_string()) == issued.get(g).cloned()).unwrap_or(false)
    }).unwrap_or(false);
    env.host.with(|s| {
        s.status_fault = None;
        s.acquire_faults.clear();
        s.attest_faults.clear();
        s.signature_failures.clear();
        s.counters.signed_ok = 0;
    });
    if c.clock_stepped_back {
        stamp_future(&key_dir);
    }
    let r2 = run_child(env, &key_dir, None, "recover");
    if r2.timed_out {
        return Err(("inconclusive".into(), "recovery run exceeded its watchdog".into()));
    }
    let (fails, signed_ok, acquires_after) = env.host.with(|s| (s.signature_failures.clone(), s.counters.signed_ok, s.counters.acquire_total));
    if r2.exit != Some(0) || signed_ok == 0 || !fails.is_empty() {
        return Err((
            "recovery:restarted-agent-cannot-authenticate".into(),
            format!("after scenario {:?} faults {:?} kill {:?} ({}): restarted agent exit {:?}, {} verified signed requests, failures {:?}", c.scenario, c.faults, c.kill_at, kill_line, r2.exit, signed_ok, fails.first()),
        ));
    }
    if stored_latched && acquires_after != acquires_before {
        return Err(("recovery:new-key-requested-although-the-latched-one-is-in-the-store".into(), format!("scenario {:?} kill {:?}: {} acquire calls during recovery", c.scenario, c.kill_at, acquires_after - acquires_before)));
    }
    if let Err((s, d)) = check_key_files(&key_dir) {
        let untouched = pre_damaged.as_ref().map(|(p, b)| std::fs::read(p).map(|now| now == *b).unwrap_or(false)).unwrap_or(false);
        if !untouched {
            return Err((s, format!("{} after the recovery run", d)));
        }
    }
    Ok((nontrivial, kill_line))
}

fn main() {
    if std::env::var("VERIF_CHILD").is_ok() {
        child_main();
    }
    let params = Params::from_env();
    gpa_verif::hmacsha::self_test();
    let known = Known::load(&params.prop);
    let mut stats = Stats::new();
    let t0 = Instant::now();
    let th = params.thorough();
    let mock = Mock::new();
    let port = mock.listen("wireserver", "127.0.0.1:0").expect("listen");
    let host = KeyHost::new(params.wseed(8));
    host.install(&mock);
    let work = PathBuf::from(format!("{}.work", params.out));
    let _ = std::fs::remove_dir_all(&work);
    std::fs::create_dir_all(work.join("logs")).unwrap();
    let env = Env { mock, host, port, work: work.clone(), exe: std::env::current_exe().unwrap() };
    let _ = &env.mock;

    if params.prop == "C12" {
        // C12, last clause: the key directory is restricted before the first key file is created in it.
        // Syscall order of a fresh latch, read from the strace log of an uninjected run of the real key keeper.
        let mut n_runs = 0u64;
        for round in 0..(if th { 16 } else { 4 }) {
            let key_dir = env.work.join(format!("keys-order-{}", round));
            let _ = std::fs::remove_dir_all(&key_dir);
            // the directory does not exist yet in odd rounds, exists with open permissions in even rounds
            if round % 2 == 0 {
                std::fs::create_dir_all(&key_dir).unwrap();
                use std::os::unix::fs::PermissionsExt;
                let _ = std::fs::set_permissions(&key_dir, std::fs::Permissions::from_mode(0o777));
            }
            reset_host(&env, &key_dir);
            // every third run: chown and chmod take 0.3 s each (the order of effects must not depend on that)
            let slow = round % 4 == 2;
            if slow {
                std::env::set_var("VERIF_STRACE_INJECT", "chown,chmod,fchmodat,fchownat,lchown:delay_enter=300000");
                stats.class("order:slow-chown-and-chmod");
            }
            // every fourth run: changing the owner is refused (no CAP_CHOWN, a file system without ownership): the directory must
            // be closed to group and others all the same before a key file appears in it
            if round % 4 == 3 {
                std::env::set_var("VERIF_STRACE_INJECT", "chown,fchownat,lchown,fchown:error=EPERM");
                stats.class("order:chown-refused-with-EPERM");
            }
            let r = run_child(&env, &key_dir, None, "order");
            std::env::remove_var("VERIF_STRACE_INJECT");
            stats.eval();
            n_runs += 1;
            let dir_text = key_dir.display().to_string();
            let mut restricted_at: Option<usize> = None;
            let mut first_create: Option<(usize, String)> = None;
            // a call that is still running when another thread's call is logged shows as "<unfinished ...>" and takes
            // effect at its "<... resumed>" line
            let pid_of = |l: &str| l.split_whitespace().next().unwrap_or("").to_string();
            let mut pending_chmod: Option<String> = None;
            for (i, l) in r.trace.iter().enumerate() {
                if let Some(p) = &pending_chmod {
                    if l.starts_with(p.as_str()) && (l.contains("chmod resumed>") || l.contains("fchmodat resumed>")) {
                        if restricted_at.is_none() {
                            restricted_at = Some(i);
                        }
                        pending_chmod = None;
                    }
                }
                if l.contains(&dir_text) {
                    if (l.contains("chmod(") || l.contains("fchmodat(")) && l.contains("0700") && restricted_at.is_none() {
                        if l.contains("<unfinished") {
                            pending_chmod = Some(pid_of(l));
                        } else {
                            restricted_at = Some(i);
                        }
                    }
                    if l.contains("O_CREAT") && l.contains(&format!("{}/", dir_text)) && first_create.is_none() {
                        first_create = Some((i, l.clone()));
                    }
                }
            }
            stats.class(if round % 2 == 0 { "order:directory-pre-existing-with-open-mode" } else { "order:directory-created-by-the-agent" });
            stats.nontrivial_hash(h64(&("c12-order", round, params.worker)));
            let l2 = first_create.clone();
            stats.sample(|| serde_json::json!({"key_dir_order_run": round, "chmod_0700_at_trace_line": restricted_at, "first_file_created_in_key_dir": l2}));
            match (restricted_at, &first_create) {
                (Some(a), Some((b, line))) if a > *b => stats.violation(Violation { signature: "keystore:file-created-before-directory-was-restricted".into(), detail: format!("first create at trace line {} ({}) precedes chmod 0700 at line {}", b, line, a), replay: serde_json::json!({"engine": "c12.order"}) }),
                (None, Some((_, line))) => stats.violation(Violation { signature: "keystore:directory-never-restricted".into(), detail: format!("a file was created ({}) but no chmod 0700 of the key directory was seen", line), replay: serde_json::json!({"engine": "c12.order"}) }),
                (_, None) => stats.inconclusive.push(format!("order run {}: no file creation seen in the key directory (exit {:?})", round, r.exit)),
                _ => {}
            }
            use std::os::unix::fs::{MetadataExt, PermissionsExt};
            if let Ok(md) = std::fs::metadata(&key_dir) {
                if md.permissions().mode() & 0o777 != 0o700 || md.uid() != 0 {
                    stats.violation(Violation { signature: "keystore:directory-not-restricted".into(), detail: format!("mode {:o} owner {}", md.permissions().mode() & 0o777, md.uid()), replay: serde_json::json!({"engine": "c12.order"}) });
                }
            }
        }
        let _ = n_runs;
        let _ = std::fs::remove_dir_all(&work);
        stats.write_worker_files(&params.out, &params.prop, "syscall-order part: uninjected strace runs of the real key keeper on a key directory that does not exist yet / exists with mode 0777, every fourth run with chown/chmod slowed down to 0.3 s each by strace delay injection, every fourth run with every chown refused (EPERM, strace fault injection); oracle: chmod 0700 (and chown root) of the key directory precede the first O_CREAT inside it, and the directory ends with mode 0700 owner root.", &["strace sees every file-system call of the single-threaded key keeper child"], t0.elapsed().as_secs_f64());
        std::process::exit(0);
    }
    let scenarios = [Scenario::FreshLatch, Scenario::RestartWithKeyOnDisk, Scenario::Rotation, Scenario::LocalKeyTruncated, Scenario::LocalKeyGarbage, Scenario::LocalKeyWrongGuidInside, Scenario::LocalKeyEmpty, Scenario::StoreBlockedFirst];
    let fault_scripts = [HostFaults::None, HostFaults::AttestLatchedReplyLost, HostFaults::AcquireErrorFirst, HostFaults::AttestErrorFirst, HostFaults::AcquireGarbageFirst, HostFaults::AttestResetFirst, HostFaults::StatusErrorFirst];
    let mut plan: Vec<Case> = Vec::new();
    let mut windows: Vec<serde_json::Value> = Vec::new();
    if let Some(path) = &params.replay {
        if let Ok(t) = std::fs::read_to_string(path) {
            if let Ok(v) = serde_json::from_str::<serde_json::Value>(&t) {
                if v["engine"] == "c08.crash" {
                    if let Ok(c) = serde_json::from_value::<Case>(v["case"].clone()) {
                        plan.push(c);
                    }
                }
            }
        }
    } else {
        // (scenario, fault script) pairs: all scenarios fault-free; the fresh latch and the rotation with every single-fault script
        let mut pairs: Vec<(Scenario, HostFaults, u8, u8)> = scenarios.iter().map(|s| (*s, HostFaults::None, 0u8, 0u8)).collect();
        for f in &fault_scripts[1..] {
            pairs.push((Scenario::FreshLatch, f.clone(), 0, 0));
            if th {
                pairs.push((Scenario::Rotation, f.clone(), 0, 0));
                pairs.push((Scenario::LocalKeyGarbage, f.clone(), 0, 0));
            }
        }
        // key directories with a history: files of earlier re-keys whose names sort before / after the keys of this run
        let hist = |k: u64| -> u8 { 1 + (h64(&(params.seed, "history", k)) % 12) as u8 };
        pairs.push((Scenario::FreshLatch, HostFaults::None, (5 + hist(1) % 8) | 16, 0));
        pairs.push((Scenario::Rotation, HostFaults::None, hist(2) | 16, 1));
        pairs.push((Scenario::RestartWithKeyOnDisk, HostFaults::None, hist(3) | 16, 0));
        pairs.push((Scenario::FreshLatch, HostFaults::None, 5 + hist(4) % 8, 0));
        // the host keeps handing out the same pending key until it is attested
        pairs.push((Scenario::FreshLatch, HostFaults::None, 0, 1));
        pairs.push((Scenario::LocalKeyGarbage, HostFaults::None, 0, 1));
        // the clock was set back between the runs: every restart finds key files with time stamps in the future (flag 2)
        pairs.push((Scenario::FreshLatch, HostFaults::None, 0, 2));
        pairs.push((Scenario::RestartWithKeyOnDisk, HostFaults::None, hist(5), 2));
        if th {
            for (k, sc) in scenarios.iter().enumerate() {
                pairs.push((*sc, HostFaults::None, hist(10 + k as u64) | 16, (k % 2 == 0) as u8));
                pairs.push((*sc, HostFaults::AttestLatchedReplyLost, hist(20 + k as u64), (k % 2 == 1) as u8));
                pairs.push((*sc, HostFaults::AcquireErrorFirst, 0, 1));
            }
        }
        for (pi, (sc, f, history, flags)) in pairs.iter().enumerate() {
            let (reissue, clock_stepped_back) = (&(*flags & 1 != 0), *flags & 2 != 0);
            if pi as u32 % params.workers != params.worker {
                continue;
            }
            // dry run under strace without injection: how many matching syscalls, and where the first status poll starts
            let dry = Case { scenario: *sc, faults: f.clone(), kill_at: None, kill_call: None, store_history: *history, reissue: *reissue, clock_stepped_back };
            let key_dir = env.work.join("keys");
            if let Err(e) = prepare(&env, &dry, &key_dir) {
                stats.inconclusive.push(format!("{:?}/{:?}: {}", sc, f, e));
                continue;
            }
            if *f == HostFaults::StatusErrorFirst {
                env.host.with(|s| s.status_fault = Some(Fault::Status(500, "busy".into(), "text/plain".into())));
                let h = env.host.clone();
                std::thread::spawn(move || {
                    for _ in 0..20000 {
                        if h.with(|s| s.counters.status_total) >= 1 {
                            h.with(|s| s.status_fault = None);
                            break;
                        }
                        std::thread::sleep(Duration::from_micros(200));
                    }
                });
            }
            arm_unblock(&env, &dry, &key_dir);
            let r = run_child(&env, &key_dir, None, "dry");
            // the uninjected run is a history too: ordering and store invariants hold there as well
            stats.eval();
            stats.class("run:uninjected");
            let dry_fail = env.host.with(|s| s.attest_arrival_violations.first().cloned()).map(|v| ("ordering:key-attested-before-it-was-stored-and-verified".to_string(), format!("{} (uninjected run of {:?}/{:?})", v, sc, f))).or_else(|| {
                // (the scenarios that start from a damaged store keep their own damaged file when the agent does not touch it)
                if matches!(sc, Scenario::LocalKeyTruncated | Scenario::LocalKeyGarbage | Scenario::LocalKeyWrongGuidInside | Scenario::LocalKeyEmpty) {
                    None
                } else {
                    check_key_files(&key_dir).err()
                }
            });
            if let Some((sig, d)) = dry_fail {
                if known.is_known(&sig) {
                    stats.known(&sig);
                } else if !stats.violations.iter().any(|v| v.signature == sig) {
                    stats.violation(Violation { signature: sig, detail: d, replay: serde_json::json!({"engine": "c08.crash", "case": dry}) });
                }
            }
            let lines: Vec<&String> = r.trace.iter().filter(|l| !l.contains("+++") && !l.contains("--- SIG")).collect();
            let total = lines.len() as u32;
            let first_poll = lines.iter().position(|l| l.contains("connect(") && l.contains(&format!("htons({})", port))).map(|p| p as u32 + 1).unwrap_or(1);
            windows.push(serde_json::json!({"scenario": format!("{:?}", sc), "faults": format!("{:?}", f), "matching_syscalls_total": total, "first_status_poll_at": first_poll, "dry_run_exit": r.exit}));
            if r.exit != Some(0) || total == 0 {
                stats.inconclusive.push(format!("{:?}/{:?}: dry run exit {:?} with {} syscalls", sc, f, r.exit, total));
                continue;
            }
            // kill points: every n in the window (thorough) or a stratified seeded sample (quick); a few beyond the end as well
            let lo = first_poll.saturating_sub(8).max(1);
            let hi = total + 3;
            let all: Vec<u32> = (lo..=hi).collect();
            // every syscall of the dry run that touches the key directory (by path, or by a descriptor opened there):
            // the quick tier always kills at each of them and right after each of them
            let kd = key_dir.display().to_string();
            let mut key_fds: Vec<String> = Vec::new();
            let mut in_key_dir: Vec<u32> = Vec::new();
            for (i, l) in lines.iter().enumerate() {
                let n = i as u32 + 1;
                let call = l.trim_start_matches(|c: char| c == '[' || c == ']' || c == ' ' || c.is_ascii_digit() || c == 'p' || c == 'i' || c == 'd');
                let on_fd = key_fds.iter().any(|fd| ["write(", "close(", "fsync(", "fdatasync(", "fchmod(", "fchown(", "ftruncate(", "pwrite64(", "writev("].iter().any(|c| call.starts_with(&format!("{}{}", c, fd)) && call[c.len() + fd.len()..].starts_with(|x: char| x == ',' || x == ')')));
                if l.contains(&kd) || on_fd {
                    in_key_dir.push(n);
                }
                if l.contains(&kd) && (call.starts_with("openat(") || call.starts_with("open(") || call.starts_with("creat(")) {
                    if let Some(fd) = l.rsplit(" = ").next().map(|x| x.trim().to_string()).filter(|x| x.chars().all(|c| c.is_ascii_digit()) && !x.is_empty()) {
                        key_fds.push(fd);
                    }
                }
                if call.starts_with("close(") {
                    key_fds.retain(|fd| !call.starts_with(&format!("close({})", fd)));
                }
            }
            stats.class_n("sum_key-directory-syscalls-in-dry-runs", in_key_dir.len() as u64);
            if std::env::var("VERIF_C08_DEBUG").is_ok() {
                eprintln!("[c08-debug] {:?}/{:?}: total {} first_poll {} key-dir syscalls {:?}", sc, f, total, first_poll, in_key_dir);
                for n in &in_key_dir {
                    eprintln!("[c08-debug]   {} {}", n, lines[*n as usize - 1]);
                }
            }
            let chosen: Vec<u32> = if th {
                all
            } else {
                let want = 22usize;
                let step = (all.len() as f64 / want as f64).max(1.0);
                let off = (h64(&(params.seed, pi)) % (step.ceil() as u64).max(1)) as f64;
                let mut v: Vec<u32> = (0..want).map(|i| ((i as f64 * step + off) as usize).min(all.len() - 1)).map(|i| all[i]).collect();
                for n in &in_key_dir {
                    v.push(*n);
                    v.push(*n + 1);
                }
                v.retain(|n| *n >= lo && *n <= hi);
                v.sort();
                v.dedup();
                v
            };
            // the syscall name of every line of the dry run, and which invocation of that syscall it is
            let name_of = |l: &str| -> Option<String> {
                let t = l.trim_start_matches(|c: char| c.is_ascii_digit() || c == ' ' || c == '[' || c == ']' || c == 'p' || c == 'i' || c == 'd');
                let n: String = t.chars().take_while(|c| c.is_ascii_alphanumeric() || *c == '_').collect();
                if !n.is_empty() && t[n.len()..].starts_with('(') { Some(n) } else { None }
            };
            let mut counts: std::collections::BTreeMap<String, u32> = std::collections::BTreeMap::new();
            let mut addr: Vec<Option<(String, u32)>> = Vec::new();
            for l in &lines {
                addr.push(name_of(l).map(|n| {
                    let c = counts.entry(n.clone()).or_insert(0);
                    *c += 1;
                    (n, *c)
                }));
            }
            for n in chosen {
                // beyond the end of the dry run: one more call of the last syscall seen (usually never reached: the run completes)
                let call = match addr.get(n as usize - 1).cloned().flatten() {
                    Some(c) => c,
                    None => match addr.iter().rev().flatten().next() {
                        Some((name, _)) => (name.clone(), counts.get(name).copied().unwrap_or(0) + (n - total)),
                        None => continue,
                    },
                };
                plan.push(Case { scenario: *sc, faults: f.clone(), kill_at: Some(n), kill_call: Some(call), store_history: *history, reissue: *reissue, clock_stepped_back });
            }
        }
    }
    for c in &plan {
        stats.eval();
        stats.class(&format!("scenario:{:?}", c.scenario));
        if c.store_history & 15 != 0 {
            stats.class(if c.store_history & 15 >= 5 { "key-directory:holds->=5-files-of-earlier-re-keys" } else { "key-directory:holds-1-4-files-of-earlier-re-keys" });
        }
        if c.reissue {
            stats.class("host:hands-the-same-pending-key-out-again-until-attested");
        }
        if c.clock_stepped_back {
            stats.class("restart:key-files-stamped-in-the-future(clock-set-back)");
        }
        if c.faults != HostFaults::None {
            stats.class(&format!("host-faults:{:?}", c.faults));
        }
        match experiment(&env, c, &mut stats) {
            Ok((nontrivial, line)) => {
                if nontrivial {
                    stats.nontrivial_hash(h64(c));
                    stats.class("kill-point:between-acquire-answer-and-attest-answer-or-damaged-store");
                }
                let l2 = line.clone();
                stats.sample(|| serde_json::json!({"scenario": format!("{:?}", c.scenario), "host_faults": format!("{:?}", c.faults), "kill_at": c.kill_at, "syscall_at_kill_point": l2}));
            }
            Err((sig, d)) if sig == "inconclusive" => stats.inconclusive.push(format!("{:?}: {}", c, d)),
            Err((sig, d)) => {
                if known.is_known(&sig) {
                    stats.known(&sig);
                } else if !stats.violations.iter().any(|v| v.signature == sig) {
                    stats.violation(Violation { signature: sig, detail: d, replay: serde_json::json!({"engine": "c08.crash", "case": c}) });
                }
            }
        }
    }
    stats.extra.insert("windows".into(), serde_json::json!(windows));
    stats.extra.insert("exhaustive_over_kill_points".into(), serde_json::json!(th && params.replay.is_none()));
    let _ = std::fs::remove_dir_all(&work);
    let rule = "enumeration: scenario in {fresh latch, restart with the key on disk, rotation (the host names a key that is not in the store), local key truncated / garbage / valid JSON of another key / empty, fresh latch with the first store blocked (the key directory's path is a regular file until the host has issued a key; the host then hands the same pending key out again)} x host-fault script in {none, first status / acquire / attest call fails with an error status, garbage body or reset, or the host latches the key but its attestation reply is lost} x kill point N = the N-th file-system, socket or descriptor-writing syscall (all of %file and %network plus read/write/close/fsync/fcntl/dup/...; the readiness-polling calls are left out) of the real KeyKeeper child, addressed to strace as 'the k-th invocation of syscall S' taken from line N of an uninjected dry run (strace counts injections per syscall: inject=S:signal=SIGKILL:when=k; the signal arrives on entering the call), N from the first status poll's connect to three past the last syscall of an uninjected dry run. thorough: every N; quick: a seeded stratified sample of 22 per (scenario, script) plus every syscall of the dry run that touches the key directory (by path or through a descriptor opened there) and its successor. every uninjected dry run is judged too (ordering and store invariants). oracle in the parent: at the instant an attestation request ARRIVES the file <guid>.key exists, is complete JSON and holds the issued guid and key; after the kill no *.key file is truncated or corrupt (the scenario's own damaged file excepted while untouched); a key the host latched is in the store; a fresh, unkilled agent on that directory performs a signed request that verifies at the host, without requesting a new key when the latched one is in the store. non-trivial: the kill fell between the acquire answer and the attest answer, or the scenario starts from a damaged store; distinct by (scenario, script, N).";
    let assumptions = ["process death only (SIGKILL at a syscall boundary): no power-loss / fsync reasoning", "the reference secure-channel host on loopback stands for the WireServer", "kill points are syscall boundaries: no externally visible effect lies between two syscalls"];
    stats.write_worker_files(&params.out, &params.prop, rule, &assumptions, t0.elapsed().as_secs_f64());
    std::process::exit(0);
}
