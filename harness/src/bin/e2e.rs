//! End-to-end checks through the real listener: C01 C03(e2e half) C04(e2e half) C05 C07 C11 C13 C14 C15.

use gpa_verif::props::{c01, c05, c07, c11, c13, c14, c15};
use gpa_verif::report::{Known, Params, Stats};
use gpa_verif::rig::Rig;
use gpa_verif::runner::Drive;
use std::time::Instant;

fn main() {
    let params = Params::from_env();
    gpa_verif::hmacsha::self_test();
    gpa_verif::runner::install_panic_hook();
    gpa_verif::runner::SHRINK_ITERS.store(400, std::sync::atomic::Ordering::Relaxed);
    let known = Known::load(&params.prop);
    let mut stats = Stats::new();
    let t0 = Instant::now();
    let th = params.thorough();
    let rig = match Rig::start(None) {
        Ok(r) => r,
        Err(e) => {
            stats.inconclusive.push(format!("rig could not start: {}", e));
            stats.write_worker_files(&params.out, &params.prop, "", &[], t0.elapsed().as_secs_f64());
            return;
        }
    };
    stats.class(&format!("worker-config:log-level:{}", gpa_verif::runner::configured_log_level()));
    let e2e_assumptions = vec![
        "odd-numbered workers run the agent under a configured log level other than the default (Info / Warn / Error / Debug, set once per process as the service does from its config file); a violation's replay file records the level",
        "the stand-in audit map (feature verif) stands for the kernel map: lookup/remove by source port with the same record layout",
        "mock metadata hosts on the real addresses inside a private network namespace; every byte they receive is counted",
        "the 500 (policy lookup failure) and unknown-caller refusal classes cannot be provoked from outside on Linux and are not exercised",
    ];
    let (rule, assumptions): (String, Vec<&str>) = match params.prop.as_str() {
        "C01" => {
            let n = params.share(if th { 200_000 } else { 6_000 });
            Drive { params: &params, stats: &mut stats, known: &known }.run("c01.mediation", 1, c01::strategy(), n, |c, s| c01::eval(&rig, c, s));
            (c01::RULE.into(), e2e_assumptions)
        }
        "C03" => {
            let n = params.share(if th { 100_000 } else { 3_000 });
            Drive { params: &params, stats: &mut stats, known: &known }.run("c03.e2e", 31, c01::strategy_c03(), n, |c, s| c01::eval(&rig, c, s));
            ("end-to-end half: the C01 rig restricted to non-elevated records for WireServer/HostGAPlugin and to the self destination, under generated rule sets; oracle: 403 and zero upstream bytes. non-trivial as in C01.".into(), e2e_assumptions)
        }
        "C05" => {
            let n = params.share(if th { 200_000 } else { 6_000 });
            Drive { params: &params, stats: &mut stats, known: &known }.run("c05.headers", 5, c05::strategy(0..4, 0.7), n, |c, s| c05::eval(&rig, c, s, false));
            (c05::RULE_C05.into(), e2e_assumptions)
        }
        "C04" => {
            let n = params.share(if th { 200_000 } else { 6_000 });
            Drive { params: &params, stats: &mut stats, known: &known }.run("c04.e2e", 41, c05::strategy(0..1, 0.999), n, |c, s| c05::eval(&rig, c, s, true));
            (c05::RULE_C04.into(), e2e_assumptions)
        }
        "C14" => {
            let n = params.share(if th { 100_000 } else { 2_400 });
            Drive { params: &params, stats: &mut stats, known: &known }.run("c14.transparency", 14, c14::strategy(), n, |c, s| c14::eval(&rig, c, s));
            let n = params.share(if th { 6_000 } else { 240 });
            Drive { params: &params, stats: &mut stats, known: &known }.run("c14.storm", 141, c14::storm_strategy(), n, |c, s| c14::eval(&rig, c, s));
            (c14::RULE.into(), e2e_assumptions)
        }
        "C15" => {
            let n = params.share(if th { 40_000 } else { 900 });
            Drive { params: &params, stats: &mut stats, known: &known }.run("c15.limits", 15, c15::strategy(if th { 30 } else { 20 }), n, |c, s| c15::eval(&rig, c, s));
            (c15::RULE.into(), e2e_assumptions)
        }
        "C11" => {
            let st = c11::start_status_task(&rig);
            let n = params.share(if th { 40_000 } else { 1_200 });
            Drive { params: &params, stats: &mut stats, known: &known }.run("c11.modes", 11, c11::strategy(), n, |c, s| c11::eval(&rig, &st, c, s));
            let n = params.share(if th { 1_200 } else { 40 });
            Drive { params: &params, stats: &mut stats, known: &known }.run("c11.storm", 111, c11::storm_strategy(), n, |c, s| c11::eval(&rig, &st, c, s));
            (c11::RULE.into(), e2e_assumptions)
        }
        "C10" => {
            let n = params.share(if th { 4_000 } else { 64 });
            Drive { params: &params, stats: &mut stats, known: &known }.run("c10.stress", 110, gpa_verif::props::c10s::strategy(), n, |c, s| gpa_verif::props::c10s::eval(&rig, c, s));
            (gpa_verif::props::c10s::RULE.into(), e2e_assumptions)
        }
        "C07" => {
            let n = params.share(if th { 30_000 } else { 1_000 });
            Drive { params: &params, stats: &mut stats, known: &known }.run("c07.single-use", 7, c07::strategy(), n, |c, s| c07::eval(&rig, c, s));
            (c07::RULE.into(), e2e_assumptions)
        }
        "C13" => {
            let st = std::cell::RefCell::new(c13::E2eState { status: c11::start_status_task(&rig), cases: 0, last_stamp: String::new() });
            let n = params.share(if th { 24_000 } else { 2_000 });
            Drive { params: &params, stats: &mut stats, known: &known }.run("c13.e2e", 131, c13::e2e_strategy(), n, |c, s| c13::eval_e2e(&rig, &mut st.borrow_mut(), c, s));
            (c13::RULE_E2E.into(), e2e_assumptions)
        }
        other => {
            eprintln!("e2e: unknown property '{}'", other);
            std::process::exit(2);
        }
    };
    // panics in agent tasks are violations of whatever property was running (recorded by the hook)
    for p in gpa_verif::runner::take_panics() {
        let sig = gpa_verif::runner::panic_signature(&p);
        if known.is_known(&sig) {
            stats.known(&sig);
        } else {
            stats.violation(gpa_verif::report::Violation { signature: sig, detail: format!("panic in thread {} at {}: {}", p.thread, p.location, p.message), replay: serde_json::json!({"engine": "panic-hook"}) });
        }
    }
    stats.write_worker_files(&params.out, &params.prop, &rule, &assumptions, t0.elapsed().as_secs_f64());
    std::process::exit(0);
}
