//! C06 driver: see `gpa_verif::props::c06`.
use azure_proxy_agent::common::constants;
use azure_proxy_agent::redirector::{ip_to_string, string_to_ip};
use gpa_verif::props::c06::*;
use gpa_verif::report::{Known, Params, Stats};
use gpa_verif::runner::Drive;
use proptest::prelude::*;
use std::time::Instant;

fn main() {
    let params = Params::from_env();
    gpa_verif::runner::install_panic_hook();
    let known = Known::load(&params.prop);
    let mut stats = Stats::new();
    let t0 = Instant::now();
    let th = params.thorough();
    // layout facts the model relies on, checked against the compiled program
    unsafe {
        assert_eq!(sim_sizeof_sock_addr() as usize, std::mem::size_of::<bpf_sock_addr>(), "bpf_sock_addr layout");
        for (name, ks, vs, max, ty) in [("policy_map", 24u32, 24u32, 10u32, 1u32), ("skip_process_map", 4, 4, 10, 1), ("audit_map", 8, 20, 200, 9), ("local_map", 8, 24, 200, 9)] {
            let (mut a, mut b, mut c, mut d) = (0u32, 0u32, 0u32, 0u32);
            assert_eq!(sim_map_info(cs(name).as_ptr(), &mut a, &mut b, &mut c, &mut d), 0);
            stats.extra.insert(format!("map:{}", name), serde_json::json!({"key_size": a, "value_size": b, "max_entries": c, "type": d}));
            if (a, b) != (ks, vs) {
                stats.violation(gpa_verif::report::Violation { signature: format!("layout:{}-key-or-value-size-differs-from-the-agent's-arrays", name), detail: format!("program: key {} value {}; agent encodes key {} value {}", a, b, ks, vs), replay: serde_json::json!({"engine": "layout"}) });
            }
            let _ = (max, ty);
        }
    }
    // byte-order constants
    for (text, val) in [(constants::WIRE_SERVER_IP, constants::WIRE_SERVER_IP_NETWORK_BYTE_ORDER), (constants::IMDS_IP, constants::IMDS_IP_NETWORK_BYTE_ORDER), (constants::GA_PLUGIN_IP, constants::GA_PLUGIN_IP_NETWORK_BYTE_ORDER), (constants::PROXY_AGENT_IP, constants::PROXY_AGENT_IP_NETWORK_BYTE_ORDER)] {
        if string_to_ip(text) != val || ip_to_string(val) != text {
            stats.violation(gpa_verif::report::Violation { signature: "encoding:byte-order-constant".into(), detail: format!("{} vs {:#x}", text, val), replay: serde_json::json!({"engine": "constants"}) });
        }
    }
    let n = params.share(if th { 4_000_000 } else { 60_000 });
    Drive { params: &params, stats: &mut stats, known: &known }.run("c06.hooks", 6, strategy(), n, eval);
    Drive { params: &params, stats: &mut stats, known: &known }.run_words("c06.hooks", "ebpf", |w| Some(case_from_words(w)), eval);
    let n = params.share(if th { 60_000 } else { 1_600 });
    Drive { params: &params, stats: &mut stats, known: &known }.run("c06.hooks", 62, inflight_strategy(), n, eval);
    let n = params.share(if th { 2_000_000 } else { 40_000 });
    Drive { params: &params, stats: &mut stats, known: &known }.run("c06.ip", 61, any::<u32>().prop_map(|ip| IpCase { ip }), n, eval_ip);
    let assumptions = ["user-space model of the documented helper/map semantics (linux/bpf.h): the BPF verifier, attachment and the kernel's real LRU approximation are outside it", "at most one connect in flight per thread; at most as many connections in flight as the maps are declared to hold (200)"];
    stats.write_worker_files(&params.out, &params.prop, RULE, &assumptions, t0.elapsed().as_secs_f64());
}
