//! Key-keeper rig checks: C09 (and later C10 C12 C16, the host-reply part of C13, own-call part of C04).

use gpa_verif::keeper::KeeperRig;
use gpa_verif::props::{c09, c10, c12, c13, c16};
use gpa_verif::report::{Known, Params, Stats};
use gpa_verif::runner::Drive;
use std::time::Instant;

fn main() {
    let params = Params::from_env();
    gpa_verif::hmacsha::self_test();
    gpa_verif::runner::install_panic_hook();
    gpa_verif::runner::SHRINK_ITERS.store(150, std::sync::atomic::Ordering::Relaxed);
    let known = Known::load(&params.prop);
    let mut stats = Stats::new();
    let t0 = Instant::now();
    let th = params.thorough();
    let with_loggers = params.prop == "C12";
    let rig = match KeeperRig::start(params.wseed(99), with_loggers) {
        Ok(r) => r,
        Err(e) => {
            stats.inconclusive.push(format!("rig could not start: {}", e));
            stats.write_worker_files(&params.out, &params.prop, "", &[], t0.elapsed().as_secs_f64());
            return;
        }
    };
    let assumptions = vec![
        "the reference secure-channel host (DESIGN.md A.3) stands for the real WireServer: issue on acquire, latch on a verifying attestation, report the latched id",
        "redirect-policy updates are observed through the feature-guarded trace (no BPF object is loaded)",
    ];
    let (rule, assumptions): (String, Vec<&str>) = match params.prop.as_str() {
        "C09" => {
            let n = params.share(if th { 12_000 } else { 320 });
            Drive { params: &params, stats: &mut stats, known: &known }.run("c09.convergence", 9, c09::strategy(), n, |c, s| c09::eval(&rig, c, s));
            (c09::RULE.into(), assumptions)
        }
        "C10" => {
            gpa_verif::runner::SHRINK_ITERS.store(3000, std::sync::atomic::Ordering::Relaxed);
            let n = params.share(if th { 600_000 } else { 20_000 });
            Drive { params: &params, stats: &mut stats, known: &known }.run("c10.schedules", 10, c10::strategy(), n, |c, s| c10::eval(&rig, c, s));
            // the same pairing, with the key keeper itself as the writer: C09's histories (documents, rotations, a host that
            // names a key the guest never stored, acquire/attest faults), the agent's own clients signing after every step
            let n = params.share(if th { 6_000 } else { 160 });
            Drive { params: &params, stats: &mut stats, known: &known }.run("c10.keeper", 109, c09::strategy(), n, |c, s| c09::eval_mode(&rig, c, s, true));
            (format!("{} third engine (c10.keeper): {}", c10::RULE, c09::RULE), assumptions)
        }
        "C16" => {
            gpa_verif::runner::SHRINK_ITERS.store(3000, std::sync::atomic::Ordering::Relaxed);
            let n = params.share(if th { 1_000_000 } else { 40_000 });
            Drive { params: &params, stats: &mut stats, known: &known }.run("c16.provision", 16, c16::strategy(), n, |c, s| c16::eval(c, s));
            (c16::RULE.into(), assumptions)
        }
        "C12" => {
            let env = std::cell::RefCell::new(c12::setup(&rig));
            let n = params.share(if th { 6_000 } else { 200 });
            Drive { params: &params, stats: &mut stats, known: &known }.run("c12.taint", 12, c12::strategy(), n, |c, s| c12::eval(&rig, &mut env.borrow_mut(), &known, c, s));
            (c12::RULE.into(), assumptions)
        }
        "C13" => {
            // one long-lived agent: a v1.0 document that needs a key
            rig.host.with(|s| s.doc = Some(gpa_verif::keyhost::StatusDoc::V1 { state: "wireserver".into() }.to_json()));
            let agent = rig.start_agent(None);
            if let Err(e) = rig.run_step(gpa_verif::keyhost::Step { keep_doc: true, ..Default::default() }, 2, std::time::Duration::from_secs(20)) {
                stats.inconclusive.push(e);
            }
            let n = params.share(if th { 30_000 } else { 600 });
            Drive { params: &params, stats: &mut stats, known: &known }.run("c13.host", 132, c13::host_strategy(), n, |c, s| c13::eval_host(&rig, &agent, c, s));
            rig.stop_agent(&agent);
            (c13::RULE_HOST.into(), assumptions)
        }
        other => {
            eprintln!("keeper: unknown property '{}'", other);
            std::process::exit(2);
        }
    };
    for p in gpa_verif::runner::take_panics() {
        let sig = gpa_verif::runner::panic_signature(&p);
        if known.is_known(&sig) {
            stats.known(&sig);
        } else {
            stats.violation(gpa_verif::report::Violation { signature: sig, detail: format!("panic in thread {} at {}: {}", p.thread, p.location, p.message.chars().take(400).collect::<String>()), replay: serde_json::json!({"engine": "panic-hook"}) });
        }
    }
    stats.write_worker_files(&params.out, &params.prop, &rule, &assumptions, t0.elapsed().as_secs_f64());
    std::process::exit(0);
}
