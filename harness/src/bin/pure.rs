//! Pure (in-process, no sockets) checks: C02, C03 (pure half), C04 (pure half), C19, C20.
//! All parameters come from the environment (see report::Params).

use gpa_verif::props::{c02, c03, c04, c13, c19, c20};
use gpa_verif::report::{Known, Params, Stats, Violation};
use gpa_verif::runner::Drive;
use std::time::Instant;

fn main() {
    if let Ok(c) = std::env::var("VERIF_C19_STOP_CASE") {
        c19::stop_child(&c);
    }
    let params = Params::from_env();
    gpa_verif::hmacsha::self_test();
    let known = Known::load(&params.prop);
    let mut stats = Stats::new();
    let t0 = Instant::now();
    let th = params.thorough();
    let (rule, assumptions): (String, Vec<&str>) = match params.prop.as_str() {
        "C02" => {
            let n = params.share(if th { 20_000_000 } else { 240_000 });
            Drive { params: &params, stats: &mut stats, known: &known }.run("c02.rbac", 2, c02::strategy(), n, c02::eval);
            Drive { params: &params, stats: &mut stats, known: &known }.run_words("c02.rbac", "rbac", |w| Some(c02::case_from_words(w)), c02::eval);
            (c02::RULE.into(), vec!["rule documents are delivered as JSON accepted by the agent's serde types", "mode and defaultAccess take their documented values (any letter case)", "identity attributes compare as exact strings (normalised paths only are generated)"])
        }
        "C03" => {
            let n = params.share(if th { 10_000_000 } else { 240_000 });
            Drive { params: &params, stats: &mut stats, known: &known }.run("c03.authz", 3, c03::strategy(), n, c03::eval);
            Drive { params: &params, stats: &mut stats, known: &known }.run_words("c03.authz", "authz", |w| Some(c03::case_from_words(w)), c03::eval);
            (c03::RULE.into(), vec!["pure half: proxy_authorizer::authorize is what the listener calls with the record's destination and claims (the end-to-end half checks that)"])
        }
        "C04" => {
            let n = params.share(if th { 12_000_000 } else { 200_000 });
            Drive { params: &params, stats: &mut stats, known: &known }.run("c04.canon", 4, c04::strategy(), n, c04::eval);
            let n2 = params.share(if th { 6_000_000 } else { 100_000 });
            Drive { params: &params, stats: &mut stats, known: &known }.run("c04.own", 5, c04::own_strategy(), n2, c04::eval_own);
            Drive { params: &params, stats: &mut stats, known: &known }.run_words("c04.canon", "canon", |w| if w.next() % 2 == 0 { Some(c04::case_from_words(w, false)) } else { None }, c04::eval);
            Drive { params: &params, stats: &mut stats, known: &known }.run_words("c04.own", "canon", |w| if w.next() % 2 == 1 { Some(c04::case_from_words(w, true)) } else { None }, c04::eval_own);
            (c04::RULE.into(), vec!["the host canonicalises as documented in hyper_client.rs and the property statement; the order among parameters is only checked up to the two admissible lexicographic orders", "header sets (unique names); duplicates belong to C05"])
        }
        "C19" => {
            let n = params.share(if th { 300_000 } else { 4_000 });
            Drive { params: &params, stats: &mut stats, known: &known }.run("c19.log", 19, c19::log_strategy(), n, c19::eval_log);
            let n = params.share(if th { 300_000 } else { 6_000 });
            Drive { params: &params, stats: &mut stats, known: &known }.run("c19.dumps", 191, c19::dump_strategy(), n, c19::eval_dump);
            let n = params.share(if th { 60_000 } else { 1_200 });
            Drive { params: &params, stats: &mut stats, known: &known }.run("c19.events", 192, c19::ev_strategy(), n, c19::eval_ev);
            let n = params.share(if th { 20_000 } else { 400 });
            Drive { params: &params, stats: &mut stats, known: &known }.run("c19.stop", 193, c19::stop_strategy(), n, c19::eval_stop);
            let _ = std::fs::remove_dir_all(format!("{}.work", params.out));
            (c19::RULE.into(), vec!["instance APIs of the rolling logger, the event logger and the rule-dump writer, on scratch directories", "files left by an earlier run were produced with the same settings"])
        }
        "C20" => {
            if params.replay.is_none() {
                let len = if th { 24 } else { 22 };
                if let Some((sig, detail, seq)) = c20::exhaustive(len, params.worker, params.workers, &mut stats) {
                    if known.is_known(&sig) {
                        stats.known(&sig);
                    } else {
                        stats.violation(Violation { signature: sig, detail, replay: serde_json::json!({"engine": "c20.exhaustive", "case": seq}) });
                    }
                }
                stats.extra.insert("exhaustive_sequence_length".into(), serde_json::json!(len));
            }
            let n = params.share(if th { 400_000 } else { 4_000 });
            Drive { params: &params, stats: &mut stats, known: &known }.run("c20.runs", 20, c20::runs_strategy(), n, c20::eval_runs);
            let n = params.share(if th { 2_000_000 } else { 40_000 });
            Drive { params: &params, stats: &mut stats, known: &known }.run("c20.notify", 21, c20::notify_strategy(), n, c20::eval_notify);
            Drive { params: &params, stats: &mut stats, known: &known }.run_words("c20.runs", "health", |w| if w.next() % 2 == 0 { Some(c20::runs_from_words(w)) } else { None }, c20::eval_runs);
            Drive { params: &params, stats: &mut stats, known: &known }.run_words("c20.notify", "health", |w| if w.next() % 2 == 1 { Some(c20::notify_from_words(w)) } else { None }, c20::eval_notify);
            (c20::RULE.into(), vec!["StatusState::update_state and ServiceState::update_service_state_entry are the only writers of the reported health and notification decisions"])
        }
        "C13" => {
            let n = params.share(if th { 2_000_000 } else { 40_000 });
            Drive { params: &params, stats: &mut stats, known: &known }.run("c13.pure", 13, c13::pure_strategy(), n, c13::eval_pure);
            Drive { params: &params, stats: &mut stats, known: &known }.run_words("c13.pure", "trunc", |w| Some(c13::pure_from_words(w)), c13::eval_pure);
            (c13::RULE_PURE.into(), vec!["part A calls the public functions directly; parts B/C reach the same code through the listener and the key keeper"])
        }
        other => {
            eprintln!("pure: unknown property '{}'", other);
            std::process::exit(2);
        }
    };
    stats.write_worker_files(&params.out, &params.prop, &rule, &assumptions, t0.elapsed().as_secs_f64());
}
