//! C17 — agent upgrade is reversible. The real `proxy_agent_setup` binary (built from /repo by
//! ./check) runs chroot'ed into an overlayfs whose lower layer is `/`, so the upper directory lists
//! exactly the files a command touched; an in-memory file-map model says what each command must do;
//! a stand-in systemctl logs its calls together with the hashes of the four system files.

use gpa_verif::report::{h64, Known, Params, Stats};
use gpa_verif::runner::{Drive, Outcome};
use proptest::prelude::*;
use serde::{Deserialize, Serialize};
use std::collections::BTreeMap;
use std::ffi::CString;
use std::os::unix::fs::{MetadataExt, PermissionsExt};
use std::path::{Path, PathBuf};
use std::process::Command;
use std::time::Instant;

const RUN: &str = "/verif/run";
const S_EXE: &str = "usr/sbin/azure-proxy-agent";
const S_CFG: &str = "etc/azure/proxy-agent.json";
const S_EBPF: &str = "usr/lib/azure-proxy-agent/ebpf_cgroup.o";
const S_UNIT: &str = "usr/lib/systemd/system/azure-proxy-agent.service";
const D: &str = "opt/gpa-setup";

type FileV = (Vec<u8>, u32);

#[derive(Clone, Debug, Serialize, Deserialize, Hash, PartialEq, Eq)]
struct Pkg {
    version: u8,
    exe_tail: Vec<u8>,
    cfg: Vec<u8>,
    ebpf: Vec<u8>,
    unit: Vec<u8>,
    exe_mode: u8,
    missing: u8, // bit 0: json, bit 1: ebpf, bit 2: unit  (the executable is always packaged)
}

#[derive(Clone, Debug, Serialize, Deserialize, Hash)]
enum Cmd {
    Backup,
    Install,
    Restore(bool),
    UninstallService,
    UninstallPackage,
    Purge,
    Repackage(Pkg),
}

#[derive(Clone, Debug, Serialize, Deserialize, Hash)]
struct Case {
    /// what the stand-in service manager answers to `is-active` / `status`: 0 active, 3 activating (auto-restart pending), inactive or failed
    #[serde(default)]
    unit_rc: u8,
    /// the stand-in answers `stop` / `start` of a unit whose unit file does not exist with exit code 5, as systemd does
    /// ("Unit ... not loaded"); otherwise every state-changing verb exits 0
    #[serde(default)]
    like_systemd: bool,
    /// installed version: None | Some((package it came from, bitmask of files present: exe, cfg, ebpf, unit))
    installed: Option<(Pkg, u8)>,
    backup: Option<(Pkg, u8)>,
    package: Pkg,
    cmds: Vec<Cmd>,
}

fn bytes() -> impl Strategy<Value = Vec<u8>> {
    prop::collection::vec(prop_oneof![4 => 0x20u8..0x7f, 1 => 0x80u8..=0xff, 1 => 1u8..0x20], 0..48)
}

fn pkg() -> impl Strategy<Value = Pkg> {
    (any::<u8>(), prop::collection::vec(prop_oneof![0x20u8..0x7f, 0x80u8..=0xff], 0..40), bytes(), bytes(), bytes(), 0u8..3, prop_oneof![9 => Just(0u8), 1 => 1u8..8])
        .prop_map(|(version, exe_tail, cfg, ebpf, unit, exe_mode, missing)| Pkg { version, exe_tail, cfg, ebpf, unit, exe_mode, missing })
}

fn cmd() -> impl Strategy<Value = Cmd> {
    prop_oneof![
        4 => Just(Cmd::Backup), 4 => Just(Cmd::Install), 4 => Just(Cmd::Restore(true)), 1 => Just(Cmd::UninstallService), 1 => Just(Cmd::UninstallPackage),
        2 => Just(Cmd::Purge), 3 => pkg().prop_map(Cmd::Repackage),
    ]
}

fn strategy() -> impl Strategy<Value = Case> {
    (
        prop::option::weighted(0.75, (pkg(), prop_oneof![8 => Just(15u8), 1 => 1u8..15])),
        prop::option::weighted(0.35, (pkg(), prop_oneof![6 => Just(15u8), 1 => 0u8..16])),
        pkg(),
        prop_oneof![
            5 => prop::collection::vec(cmd(), 1..9),
            // the upgrade round trip, with optional commands before and after and a second install in between
            5 => (prop::collection::vec(cmd(), 0..3), pkg(), prop::option::weighted(0.3, pkg()), prop::collection::vec(cmd(), 0..3)).prop_map(|(mut pre, p1, p2, mut post)| {
                pre.push(Cmd::Backup);
                pre.push(Cmd::Repackage(p1));
                pre.push(Cmd::Install);
                if let Some(p2) = p2 {
                    pre.push(Cmd::Repackage(p2));
                    pre.push(Cmd::Install);
                }
                pre.push(Cmd::Restore(true));
                pre.append(&mut post);
                pre
            }),
        ],
        (prop::bool::weighted(0.3), prop_oneof![3 => Just(0u8), 2 => Just(3u8)], any::<bool>()),
    )
        .prop_map(|(installed, backup, package, mut cmds, (same_length, unit_rc, like_systemd))| {
            // an upgrade often changes a value, not the size of a file: new packages whose data files have the
            // lengths of the installed ones and other content
            if same_length {
                if let Some((pk, _)) = &installed {
                    let twist = |v: &Vec<u8>, k: u8| -> Vec<u8> { v.iter().map(|b| b ^ (1 + (k & 1))).collect() };
                    for c in cmds.iter_mut() {
                        if let Cmd::Repackage(p) = c {
                            p.cfg = twist(&pk.cfg, p.version);
                            p.ebpf = twist(&pk.ebpf, p.version);
                            p.unit = twist(&pk.unit, p.version);
                            p.missing = 0;
                        }
                    }
                }
            }
            Case { unit_rc, like_systemd, installed, backup, package, cmds }
        })
}

const RULE: &str = "generator: initial state = (nothing installed | a version installed with all four files or a subset) x (no backup | a backup, possibly stale or partial) x a package with generated file contents and modes (the executable is a shell script answering --version followed by arbitrary bytes; data files are arbitrary bytes incl. empty), bystander files of other owners next to each of the four system files (e.g. /usr/lib/azure-proxy-agent/package/ProxyAgentExt), then 1-8 commands from {backup, install, restore (the command line always deletes the backup afterwards: its delete_backup value cannot be given), uninstall service, uninstall package, purge, repackage (the package content changes between installs; in 30% of the cases the new data files have the same lengths as the installed ones and other content)}; each command is the REAL setup binary run chroot'ed in an overlay over '/'. oracle: an in-memory model of the four system paths, the backup folder and the package (bytes and modes) compared after every command; the overlay's upper directory is diffed around every command and every changed path must be one of the four system paths, the backup folder or the tool's log; the stand-in systemctl answers queries (is-active, status) as 'active' or as 'activating' (exit 3) by the case, and in half of the cases answers stop / start of a unit that has no unit file with exit code 5 as systemd does; its log of state-changing calls must be the expected sequence, 'stop' seeing the pre-command hashes and 'start' the post-command hashes. non-trivial: sequence containing backup -> install of different content -> restore, or a restore without a backup, or an install over a partially present version; distinct by hash of the case.";

fn cstr(s: &str) -> CString {
    CString::new(s).unwrap()
}

fn mount(src: &str, tgt: &str, fstype: Option<&str>, flags: libc::c_ulong, data: Option<&str>) -> Result<(), String> {
    let (s, t) = (cstr(src), cstr(tgt));
    let f = fstype.map(cstr);
    let d = data.map(cstr);
    let rc = unsafe { libc::mount(s.as_ptr(), t.as_ptr(), f.as_ref().map(|c| c.as_ptr()).unwrap_or(std::ptr::null()), flags, d.as_ref().map(|c| c.as_ptr() as *const libc::c_void).unwrap_or(std::ptr::null())) };
    if rc != 0 {
        return Err(format!("mount {} on {} ({:?}): {}", src, tgt, data, std::io::Error::last_os_error()));
    }
    Ok(())
}

fn umount(t: &str) {
    let c = cstr(t);
    unsafe {
        libc::umount2(c.as_ptr(), libc::MNT_DETACH);
    }
}

struct Overlay {
    merged: PathBuf,
    upper: PathBuf,
    tool: PathBuf,
}

impl Overlay {
    fn enter_namespace() -> Result<(), String> {
        if unsafe { libc::unshare(libc::CLONE_NEWNS) } != 0 {
            return Err(format!("unshare: {}", std::io::Error::last_os_error()));
        }
        mount("none", "/", None, libc::MS_REC | libc::MS_PRIVATE, None)?;
        std::fs::create_dir_all(RUN).map_err(|e| e.to_string())?;
        mount("tmpfs", RUN, Some("tmpfs"), 0, Some("size=1g,mode=755"))
    }

    fn fresh(tool: &Path) -> Result<Overlay, String> {
        let merged = PathBuf::from(format!("{}/merged", RUN));
        umount(&format!("{}/merged/proc", RUN));
        umount(&format!("{}/merged/dev", RUN));
        umount(&format!("{}/merged", RUN));
        for d in ["upper", "work", "merged"] {
            let p = format!("{}/{}", RUN, d);
            let _ = std::fs::remove_dir_all(&p);
            std::fs::create_dir_all(&p).map_err(|e| e.to_string())?;
        }
        mount("overlay", merged.to_str().unwrap(), Some("overlay"), 0, Some(&format!("lowerdir=/,upperdir={}/upper,workdir={}/work", RUN, RUN)))?;
        mount("/proc", &format!("{}/merged/proc", RUN), None, libc::MS_BIND | libc::MS_REC, None)?;
        mount("/dev", &format!("{}/merged/dev", RUN), None, libc::MS_BIND | libc::MS_REC, None)?;
        let o = Overlay { merged, upper: PathBuf::from(format!("{}/upper", RUN)), tool: tool.to_path_buf() };
        // the tool and the stand-in systemctl
        std::fs::create_dir_all(o.path(D)).map_err(|e| e.to_string())?;
        std::fs::copy(&o.tool, o.path(&format!("{}/proxy_agent_setup", D))).map_err(|e| format!("copy tool: {}", e))?;
        std::fs::create_dir_all(o.path("opt/fakebin")).map_err(|e| e.to_string())?;
        let script = format!(
            "#!/bin/sh\n{{ echo \"CALL $*\"; for f in /{} /{} /{} /{}; do if [ -f $f ]; then echo \"$(sha256sum < $f | cut -d' ' -f1) $(stat -c %a $f)\"; else echo MISSING; fi; done; }} >> /opt/fakebin/systemctl.log\ncase \"$1\" in is-active|status|is-failed) exit $(cat /opt/fakebin/is_active_rc 2>/dev/null || echo 0);; stop|start) if [ -f /opt/fakebin/like_systemd ] && [ ! -f /{} ]; then exit 5; fi;; esac\nexit 0\n",
            S_EXE, S_CFG, S_EBPF, S_UNIT, S_UNIT
        );
        std::fs::write(o.path("opt/fakebin/systemctl"), script).map_err(|e| e.to_string())?;
        std::fs::set_permissions(o.path("opt/fakebin/systemctl"), std::fs::Permissions::from_mode(0o755)).map_err(|e| e.to_string())?;
        Ok(o)
    }

    fn path(&self, rel: &str) -> PathBuf {
        self.merged.join(rel)
    }

    fn put(&self, rel: &str, v: &FileV) {
        let p = self.path(rel);
        if let Some(d) = p.parent() {
            let _ = std::fs::create_dir_all(d);
        }
        std::fs::write(&p, &v.0).unwrap();
        std::fs::set_permissions(&p, std::fs::Permissions::from_mode(v.1)).unwrap();
    }

    fn get(&self, rel: &str) -> Option<FileV> {
        let p = self.path(rel);
        let md = std::fs::symlink_metadata(&p).ok()?;
        if !md.is_file() {
            return None;
        }
        Some((std::fs::read(&p).ok()?, md.permissions().mode() & 0o7777))
    }

    fn run(&self, args: &[&str]) -> (i32, String) {
        let out = Command::new("chroot")
            .arg(&self.merged)
            .arg(format!("/{}/proxy_agent_setup", D))
            .args(args)
            .env("PATH", "/opt/fakebin:/usr/sbin:/usr/bin:/sbin:/bin")
            .env_remove("RUST_BACKTRACE")
            .current_dir("/")
            .output();
        match out {
            Ok(o) => (o.status.code().unwrap_or(-1), format!("{}{}", String::from_utf8_lossy(&o.stdout), String::from_utf8_lossy(&o.stderr))),
            Err(e) => (-2, e.to_string()),
        }
    }

    /// non-directory entries of the upper layer: path -> (kind, size, mode, hash of content, mtime ns)
    fn upper_listing(&self) -> BTreeMap<String, (String, u64, u32, u64, i64)> {
        fn walk(base: &Path, dir: &Path, out: &mut BTreeMap<String, (String, u64, u32, u64, i64)>) {
            if let Ok(rd) = std::fs::read_dir(dir) {
                for e in rd.flatten() {
                    let p = e.path();
                    let md = match std::fs::symlink_metadata(&p) {
                        Ok(m) => m,
                        Err(_) => continue,
                    };
                    let rel = p.strip_prefix(base).unwrap().to_string_lossy().to_string();
                    if md.is_dir() {
                        walk(base, &p, out);
                    } else {
                        let kind = if md.file_type().is_file() { "file" } else { "whiteout-or-special" };
                        let h = if md.is_file() { h64(&std::fs::read(&p).unwrap_or_default()) } else { 0 };
                        out.insert(rel, (kind.to_string(), md.len(), md.permissions().mode() & 0o7777, h, md.mtime() * 1_000_000_000 + md.mtime_nsec()));
                    }
                }
            }
        }
        let mut m = BTreeMap::new();
        walk(&self.upper, &self.upper, &mut m);
        m
    }
}

fn exe_bytes(p: &Pkg) -> FileV {
    let mut b = format!("#!/bin/sh\nif [ \"$1\" = \"--version\" ]; then echo 1.0.{}; exit 0; fi\nexit 0\n# ", p.version).into_bytes();
    b.extend(p.exe_tail.iter().filter(|c| **c != b'\n' && **c != 0));
    b.push(b'\n');
    (b, [0o755u32, 0o700, 0o555][p.exe_mode as usize % 3])
}

/// the four files a package stands for (exe, cfg, ebpf, unit)
fn pkg_files(p: &Pkg) -> [FileV; 4] {
    [exe_bytes(p), (p.cfg.clone(), 0o644), (p.ebpf.clone(), 0o640), (p.unit.clone(), 0o644)]
}

#[derive(Clone, Default, PartialEq, Eq, Debug)]
struct Model {
    s: [Option<FileV>; 4], // exe, cfg, ebpf, unit
    b: [Option<FileV>; 4], // backup: Package/exe, Package/cfg, Package/ebpf, unit
    b_exists: bool,
    p: [Option<FileV>; 4], // package: exe, cfg, ebpf, D/unit
}

const S_PATHS: [&str; 4] = [S_EXE, S_CFG, S_EBPF, S_UNIT];
fn b_paths() -> [String; 4] {
    [format!("{}/ProxyAgent/Backup/Package/azure-proxy-agent", D), format!("{}/ProxyAgent/Backup/Package/proxy-agent.json", D), format!("{}/ProxyAgent/Backup/Package/ebpf_cgroup.o", D), format!("{}/ProxyAgent/Backup/azure-proxy-agent.service", D)]
}
fn p_paths() -> [String; 4] {
    [format!("{}/ProxyAgent/azure-proxy-agent", D), format!("{}/ProxyAgent/proxy-agent.json", D), format!("{}/ProxyAgent/ebpf_cgroup.o", D), format!("{}/azure-proxy-agent.service", D)]
}

fn write_package(o: &Overlay, m: &mut Model, p: &Pkg) {
    let files = pkg_files(p);
    let paths = p_paths();
    for i in 0..4 {
        let missing = i > 0 && (p.missing >> (i - 1)) & 1 == 1;
        let _ = std::fs::remove_file(o.path(&paths[i]));
        if missing {
            m.p[i] = None;
        } else {
            o.put(&paths[i], &files[i]);
            m.p[i] = Some(files[i].clone());
        }
    }
}

/// expected systemctl calls of a command, and the model transition
fn apply(m: &mut Model, c: &Cmd) -> (Vec<&'static str>, bool) {
    // returns (systemctl calls, command expected to exit 0)
    match c {
        Cmd::Backup => {
            for i in 0..4 {
                if let Some(f) = &m.s[i] {
                    m.b[i] = Some(f.clone());
                }
            }
            m.b_exists = true;
            (vec![], true)
        }
        Cmd::Install => {
            for i in 0..3 {
                if let Some(f) = &m.p[i] {
                    m.s[i] = Some(f.clone());
                }
            }
            match &m.p[3] {
                Some(u) => {
                    m.s[3] = Some(u.clone());
                    (vec!["stop", "unmask", "daemon-reload", "enable", "start"], true)
                }
                None => (vec!["stop"], false),
            }
        }
        Cmd::Restore(delete) => {
            if m.b[0].is_none() {
                return (vec![], true);
            }
            for i in 0..3 {
                if let Some(f) = &m.b[i] {
                    m.s[i] = Some(f.clone());
                }
            }
            match m.b[3].clone() {
                Some(u) => {
                    m.s[3] = Some(u);
                    if *delete {
                        m.b = Default::default();
                        m.b_exists = false;
                    }
                    (vec!["stop", "unmask", "daemon-reload", "enable", "start"], true)
                }
                None => (vec!["stop"], false),
            }
        }
        Cmd::UninstallService | Cmd::UninstallPackage => {
            let had_unit = m.s[3].is_some();
            m.s[3] = None;
            if matches!(c, Cmd::UninstallPackage) {
                for i in 0..3 {
                    m.s[i] = None;
                }
            }
            (if had_unit { vec!["stop", "disable", "daemon-reload"] } else { vec!["stop", "disable"] }, true)
        }
        Cmd::Purge => {
            m.b = Default::default();
            m.b_exists = false;
            (vec![], true)
        }
        Cmd::Repackage(_) => (vec![], true),
    }
}

fn hash_line(f: &Option<FileV>) -> String {
    match f {
        None => "MISSING".into(),
        Some((b, mode)) => format!("{} {:o}", sha256_hex(b), mode),
    }
}
fn sha256_hex(b: &[u8]) -> String {
    gpa_verif::hmacsha::hex_lower(&gpa_verif::hmacsha::sha256(b))
}

fn allowed_change(path: &str) -> bool {
    S_PATHS.contains(&path) || path.starts_with(&format!("{}/ProxyAgent/Backup", D)) || path.starts_with(&format!("{}/setup.log", D)) || path == "opt/fakebin/systemctl.log" || path == "opt/fakebin/is_active_rc" || path == "opt/fakebin/like_systemd"
}

fn eval(tool: &Path, case: &Case, stats: &mut Stats) -> Outcome {
    let o = match Overlay::fresh(tool) {
        Ok(o) => o,
        Err(e) => {
            if !stats.is_frozen() {
                stats.inconclusive.push(format!("overlay: {}", e));
            }
            return Outcome::Pass;
        }
    };
    let mut m = Model::default();
    // ---- initial state ----
    if let Some((p, mask)) = &case.installed {
        let files = pkg_files(p);
        for i in 0..4 {
            if (mask >> i) & 1 == 1 {
                o.put(S_PATHS[i], &files[i]);
                m.s[i] = Some(files[i].clone());
            }
        }
    }
    if let Some((p, mask)) = &case.backup {
        let files = pkg_files(p);
        let bp = b_paths();
        std::fs::create_dir_all(o.path(&format!("{}/ProxyAgent/Backup/Package", D))).unwrap();
        m.b_exists = true;
        for i in 0..4 {
            if (mask >> i) & 1 == 1 {
                o.put(&bp[i], &files[i]);
                m.b[i] = Some(files[i].clone());
            }
        }
    }
    write_package(&o, &mut m, &case.package);
    let _ = std::fs::write(o.path("opt/fakebin/is_active_rc"), format!("{}\n", case.unit_rc));
    let _ = std::fs::remove_file(o.path("opt/fakebin/like_systemd"));
    if case.like_systemd {
        let _ = std::fs::write(o.path("opt/fakebin/like_systemd"), b"1\n");
        stats.class("service-manager:stop/start-of-a-unit-without-unit-file-exits-5");
    }
    // bystanders: other people's files in the folders the tool works in (the distro payload lives under
    // /usr/lib/azure-proxy-agent/package); no command may touch them
    for (rel, content) in [
        ("usr/lib/azure-proxy-agent/package/ProxyAgentExt", "payload"),
        ("usr/lib/azure-proxy-agent/NOTICE", "notice"),
        ("etc/azure/other-agent.json", "{}"),
        ("usr/lib/systemd/system/other-agent.service", "[Unit]\n"),
        ("usr/sbin/other-agent-tool", "#!/bin/sh\n"),
    ] {
        o.put(rel, &(content.as_bytes().to_vec(), 0o644));
    }
    let full_install = case.installed.as_ref().map(|(_, mask)| *mask == 15);
    let asserted_domain = full_install != Some(false); // partial installs: only containment and no crash are asserted
    if !asserted_domain {
        stats.class("initial:partial-install(weak-assertions)");
    }

    let mut seq_backup_at: Option<[Option<FileV>; 4]> = None;
    let mut installed_other_after_backup = false;
    let mut nontrivial = !asserted_domain && case.cmds.iter().any(|c| matches!(c, Cmd::Install));
    for (i, c) in case.cmds.iter().enumerate() {
        if let Cmd::Repackage(p) = c {
            write_package(&o, &mut m, p);
            continue;
        }
        let before_listing = o.upper_listing();
        let pre_s = m.s.clone();
        let _ = std::fs::remove_file(o.path("opt/fakebin/systemctl.log"));
        let before_model = m.clone();
        let (calls, want_ok) = apply(&mut m, c);
        let args: Vec<&str> = match c {
            Cmd::Backup => vec!["backup"],
            Cmd::Install => vec!["install"],
            // the command line cannot express "keep the backup": `restore` takes no value and always deletes it
            Cmd::Restore(_) => vec!["restore"],
            Cmd::UninstallService => vec!["uninstall", "service"],
            Cmd::UninstallPackage => vec!["uninstall", "package"],
            Cmd::Purge => vec!["purge"],
            Cmd::Repackage(_) => unreachable!(),
        };
        let (code, output) = o.run(&args);
        stats.class(&format!("cmd:{}", args.join(" ")));
        if code == 101 || code < 0 || output.contains("panicked at") {
            return Outcome::fail("setup:tool-crashed", format!("cmd {} {:?}: exit {} output {:?}", i, args, code, output.chars().take(600).collect::<String>()));
        }
        // ---- containment: everything that changed in the upper layer ----
        let after_listing = o.upper_listing();
        for (p, v) in &after_listing {
            if before_listing.get(p) != Some(v) && !allowed_change(p) {
                return Outcome::fail("setup:file-outside-the-allowed-locations-changed", format!("cmd {} {:?}: {} changed ({:?} -> {:?})", i, args, p, before_listing.get(p), v));
            }
        }
        for p in before_listing.keys() {
            if !after_listing.contains_key(p) && !allowed_change(p) {
                return Outcome::fail("setup:file-outside-the-allowed-locations-changed", format!("cmd {} {:?}: {} disappeared", i, args, p));
            }
        }
        if !asserted_domain {
            // re-synchronise the model with reality and go on
            for k in 0..4 {
                m.s[k] = o.get(S_PATHS[k]);
                m.b[k] = o.get(&b_paths()[k]);
            }
            continue;
        }
        // ---- model equality ----
        let names = ["executable", "configuration", "eBPF object", "service unit"];
        for k in 0..4 {
            let got = o.get(S_PATHS[k]);
            if got != m.s[k] {
                let sig = match c {
                    Cmd::Restore(_) => "setup:restore-does-not-reinstate-the-backed-up-file",
                    Cmd::Install => "setup:install-does-not-place-the-packaged-file",
                    Cmd::Backup | Cmd::Purge => "setup:command-altered-an-installed-file",
                    _ => "setup:uninstall-result-differs",
                };
                return Outcome::fail(sig, format!("cmd {} {:?}: system {} is {:?} but the model says {:?}", i, args, names[k], got.map(|f| (f.0.len(), f.1, sha256_hex(&f.0))), m.s[k].as_ref().map(|f| (f.0.len(), f.1, sha256_hex(&f.0)))));
            }
            let gotb = o.get(&b_paths()[k]);
            if gotb != m.b[k] {
                let sig = match c {
                    Cmd::Backup => "setup:backup-does-not-save-the-installed-file",
                    Cmd::Purge | Cmd::Restore(true) => "setup:backup-not-removed",
                    _ => "setup:command-altered-the-backup",
                };
                return Outcome::fail(sig, format!("cmd {} {:?}: backup {} is {:?} but the model says {:?}", i, args, names[k], gotb.map(|f| (f.0.len(), f.1)), m.b[k].as_ref().map(|f| (f.0.len(), f.1))));
            }
            let gotp = o.get(&p_paths()[k]);
            if gotp != m.p[k] {
                return Outcome::fail("setup:command-altered-the-package", format!("cmd {} {:?}: packaged {} changed", i, args, names[k]));
            }
        }
        if !m.b_exists && o.path(&format!("{}/ProxyAgent/Backup", D)).exists() && matches!(c, Cmd::Purge | Cmd::Restore(true)) && before_model.b[0].is_some() {
            return Outcome::fail("setup:backup-not-removed", format!("cmd {} {:?}: the backup folder still exists", i, args));
        }
        if (code == 0) != want_ok {
            return Outcome::fail("setup:exit-status-differs", format!("cmd {} {:?}: exit {} (model expects {}); output {:?}", i, args, code, if want_ok { "success" } else { "failure" }, output.chars().take(400).collect::<String>()));
        }
        // ---- systemctl call log ----
        let log = std::fs::read_to_string(o.path("opt/fakebin/systemctl.log")).unwrap_or_default();
        let mut got_calls: Vec<(String, Vec<String>)> = Vec::new();
        for line in log.lines() {
            if let Some(rest) = line.strip_prefix("CALL ") {
                got_calls.push((rest.to_string(), Vec::new()));
            } else if let Some(last) = got_calls.last_mut() {
                last.1.push(line.to_string());
            }
        }
        // queries (is-active, status, ...) change nothing and are not part of the contract; the state-changing verbs are
        got_calls.retain(|(c, _)| !matches!(c.split(' ').next().unwrap_or(""), "is-active" | "is-enabled" | "is-failed" | "status" | "show" | "cat" | "list-units" | "list-unit-files"));
        let verbs: Vec<String> = got_calls.iter().map(|(c, _)| c.split(' ').next().unwrap_or("").to_string()).collect();
        if verbs != calls {
            return Outcome::fail("setup:service-manager-calls-differ", format!("cmd {} {:?}: systemctl saw {:?}, expected {:?}", i, args, got_calls.iter().map(|c| &c.0).collect::<Vec<_>>(), calls));
        }
        for (call, _) in &got_calls {
            if !call.starts_with("daemon-reload") && !call.ends_with(" azure-proxy-agent") {
                return Outcome::fail("setup:service-manager-calls-differ", format!("cmd {} {:?}: call {:?} does not name the service", i, args, call));
            }
        }
        if let Some((first, hashes)) = got_calls.first() {
            if first.starts_with("stop") {
                let want: Vec<String> = pre_s.iter().map(hash_line).collect();
                if *hashes != want {
                    return Outcome::fail("setup:file-replaced-before-the-service-was-stopped", format!("cmd {} {:?}: at 'stop' the system files were {:?}, before the command they were {:?}", i, args, hashes, want));
                }
            }
        }
        if let Some((last, hashes)) = got_calls.last() {
            if last.starts_with("start") {
                let want: Vec<String> = m.s.iter().map(hash_line).collect();
                if *hashes != want {
                    return Outcome::fail("setup:service-started-before-the-files-were-in-place", format!("cmd {} {:?}: at 'start' the system files were {:?}, after the command they are {:?}", i, args, hashes, want));
                }
            }
        }
        // ---- round trip bookkeeping ----
        match c {
            Cmd::Backup => {
                seq_backup_at = Some(pre_s.clone());
                installed_other_after_backup = false;
            }
            Cmd::Install => {
                if let Some(b) = &seq_backup_at {
                    if *b != m.s {
                        installed_other_after_backup = true;
                    }
                }
            }
            Cmd::Restore(_) => {
                if before_model.b[0].is_none() {
                    nontrivial = true;
                    stats.class("seq:restore-without-backup");
                } else if let Some(b) = &seq_backup_at {
                    if installed_other_after_backup && full_install == Some(true) && b.iter().all(|f| f.is_some()) {
                        nontrivial = true;
                        stats.class("seq:backup-install-restore-round-trip");
                        if m.s != *b {
                            return Outcome::fail("setup:round-trip-does-not-reinstate-the-pre-upgrade-files", format!("cmd {}: after backup, install and restore the system files differ from their pre-backup content", i));
                        }
                    }
                }
            }
            _ => {}
        }
    }
    if nontrivial {
        stats.nontrivial_hash(h64(case));
    }
    stats.sample(|| serde_json::json!({"installed": case.installed.as_ref().map(|(p, m)| (p.version, m)), "backup": case.backup.as_ref().map(|(p, m)| (p.version, m)), "package_version": case.package.version, "package_missing_bits": case.package.missing,
        "cmds": case.cmds.iter().map(|c| match c { Cmd::Repackage(p) => format!("repackage(v{}, missing {:03b})", p.version, p.missing), other => format!("{:?}", other) }).collect::<Vec<_>>()}));
    Outcome::Pass
}

fn main() {
    let params = Params::from_env();
    gpa_verif::runner::install_panic_hook();
    gpa_verif::runner::SHRINK_ITERS.store(120, std::sync::atomic::Ordering::Relaxed);
    let known = Known::load(&params.prop);
    let mut stats = Stats::new();
    let t0 = Instant::now();
    let th = params.thorough();
    let tool = PathBuf::from(std::env::var("VERIF_SETUP_TOOL").unwrap_or_else(|_| "/verif/target/repo/release/proxy_agent_setup".into()));
    if !tool.exists() {
        stats.inconclusive.push(format!("setup tool {:?} not built", tool));
        stats.write_worker_files(&params.out, &params.prop, RULE, &[], t0.elapsed().as_secs_f64());
        return;
    }
    if let Err(e) = Overlay::enter_namespace() {
        stats.inconclusive.push(format!("namespace: {}", e));
        stats.write_worker_files(&params.out, &params.prop, RULE, &[], t0.elapsed().as_secs_f64());
        return;
    }
    let n = params.share(if th { 20_000 } else { 400 });
    Drive { params: &params, stats: &mut stats, known: &known }.run("c17.setup", 17, strategy(), n, |c, s| eval(&tool, c, s));
    let assumptions = ["the setup tool's own contract only; the extension's orchestration around it (backup before install, restore on Error, purge on Success) is out of scope", "systemctl is a stand-in that logs its calls; overlayfs over '/' shows every file the tool touched", "initial states with a partially installed version are only checked for containment and absence of crashes"];
    stats.write_worker_files(&params.out, &params.prop, RULE, &assumptions, t0.elapsed().as_secs_f64());
}
