//! C18 — telemetry is delivered at most once, well-formed, in bounded batches.
//! The real `EventReader` on a paused-clock current-thread runtime (the 15 s retry sleeps elapse in
//! virtual time) against a raw mock host; bodies are parsed with an independent XML parser (xml-rs).

use azure_proxy_agent::shared_state::SharedState;
use azure_proxy_agent::telemetry::event_reader::EventReader;
use gpa_verif::mockhost::{Mock, Recorded, ResponseSpec};
use gpa_verif::report::{h64, Known, Params, Stats};
use gpa_verif::runner::{Drive, Outcome};
use proptest::prelude::*;
use serde::{Deserialize, Serialize};
use std::collections::{BTreeMap, VecDeque};
use std::sync::{Arc, Mutex};
use std::time::{Duration, Instant};

#[derive(Clone, Debug, Serialize, Deserialize, Hash)]
struct GEvent {
    message: String,
    task: String,
    level: String,
    /// appended to the unique marker in OperationId
    #[serde(default)]
    op: String,
    /// Version / TimeStamp of the stored event (empty = the usual "9.9.9" / "2026-01-01T00:00:00.000")
    #[serde(default)]
    version: String,
    #[serde(default)]
    stamp: String,
}

#[derive(Clone, Debug, Serialize, Deserialize, Hash)]
enum PostFault {
    Status(u16),
    Reset,
    Late(u8),
}

#[derive(Clone, Debug, Serialize, Deserialize, Hash)]
struct Case {
    files: Vec<Vec<GEvent>>,
    /// outcome of the successive telemetry POSTs (then: accepted)
    faults: Vec<Option<PostFault>>,
    /// one more file whose events (plain ASCII, sizes computed from the measured fixed overhead) make a batch of
    /// exactly 65536 + delta bytes: (delta, number of events)
    #[serde(default)]
    exact: Option<(i8, u8)>,
}

/// (bytes of an empty batch, fixed bytes of one event with an empty message), measured at start-up on this machine
static CAL: Mutex<Option<(usize, usize)>> = Mutex::new(None);

const HOSTILE: &[&str] = &["<", ">", "&", "'", "\"", "]]>", "<![CDATA[", "&amp;", "</Event>", "<Param Name=\"x\" Value=\"y\" />", "\u{1f980}", "\u{6f22}", "\u{e9}", "]]", "--", "<?xml", "\u{2028}", "&#x0;", "%s", "\\"];

fn message() -> impl Strategy<Value = String> {
    let piece = prop_oneof![4 => "[a-zA-Z0-9 .,:/_-]{1,30}", 5 => prop::sample::select(HOSTILE.to_vec()).prop_map(|s| s.to_string()), 1 => "\\PC{1,8}"];
    prop_oneof![
        6 => prop::collection::vec(piece.clone(), 0..12).prop_map(|v| v.concat()),
        // sized so that a handful of events cross the 64 KiB batch limit
        3 => (prop::sample::select(vec![3900usize, 4096, 7000, 8100, 9000, 15000, 21000, 31000]), prop::sample::select(vec!['a', '<', '&', '\u{e9}', '\u{1f980}'])).prop_map(|(n, c)| {
            let w = c.len_utf8() * if c == '<' || c == '&' { 4 } else { 1 };
            c.to_string().repeat(n / w.max(1))
        }),
        // alone just under / over the limit once wrapped
        1 => (prop::sample::select(vec![63_000usize, 63_900, 64_200, 64_400, 64_600, 65_536, 70_000, 140_000]), prop::sample::select(vec!['a', 'z', 'a', '\u{e9}', '\u{597d}', '\u{1f980}']), 0usize..4).prop_map(|(n, c, pad)| format!("{}{}", "p".repeat(pad), c.to_string().repeat(n / c.len_utf8()))),
    ]
}

fn gevent() -> impl Strategy<Value = GEvent> {
    // every text field of a stored event is somebody's text: module names, versions, time stamps and levels come from the file
    let small = || prop_oneof![5 => Just(String::new()), 2 => prop::sample::select(HOSTILE.to_vec()).prop_map(|s| s.to_string()), 1 => prop::collection::vec(prop::sample::select(HOSTILE.to_vec()), 2..4).prop_map(|v| v.concat())];
    (message(), prop::sample::select(vec!["start", "log_connection_summary", "t<a>sk", "poll & wait"]), prop::sample::select(vec!["INFO", "WARN", "ERROR", "I<N>FO", "]]>"]), small(), small(), small())
        .prop_map(|(message, task, level, op, version, stamp)| GEvent { message, task: task.to_string(), level: level.to_string(), op, version, stamp })
}

fn strategy() -> impl Strategy<Value = Case> {
    let fault = prop_oneof![6 => Just(None), 2 => prop::sample::select(vec![500u16, 503, 400, 404, 429]).prop_map(|c| Some(PostFault::Status(c))), 1 => Just(Some(PostFault::Reset)), 1 => (1u8..30).prop_map(|d| Some(PostFault::Late(d)))];
    (prop::collection::vec(prop::collection::vec(gevent(), 0..14), 0..5), prop_oneof![
        6 => Just(vec![]),
        4 => prop::collection::vec(fault, 1..9),
        // a batch that is refused on all five attempts (it is given up), after 0-3 accepted POSTs
        2 => (0usize..4, 5usize..8, prop::sample::select(vec![500u16, 503, 404, 429, 408])).prop_map(|(k, n, code)| {
            let mut v: Vec<Option<PostFault>> = vec![None; k];
            v.extend(std::iter::repeat(Some(PostFault::Status(code))).take(n));
            v
        }),
    ], prop::option::weighted(0.3, (-2i8..=2, 1u8..=5))).prop_map(|(files, faults, exact)| Case { files, faults, exact })
}

const RULE: &str = "generator: 0-4 event files x 0-13 events; message text = any Unicode scalar values except controls, drawn heavily from markup (< > & ' \" ]]> <![CDATA[ &amp; </Event> <Param .../>), non-BMP characters and long runs sized so that batch totals land around 64 KiB and single events land just under / over 64 KiB once wrapped (ASCII or runs of 2-, 3- and 4-byte characters behind 0-3 ASCII characters); every event carries a unique marker in OperationId, followed in a third of the events by markup; Version, TimeStamp and EventLevel of the stored event carry markup as well in a third of the events each; the telemetry endpoint answers the successive POSTs by a generated pattern (accept / 5xx,4xx / connection reset / accept late; one case in six: 0-3 accepted POSTs followed by 5-7 refusals in a row, i.e. a batch that is given up). The real EventReader runs on a paused-clock runtime against a raw mock that also serves goal state, shared config and instance info. oracle: every POST body is < 65536 bytes and parses with xml-rs as TelemetryData/Provider/Event*; each event's character data parsed again as a fragment is a list of Param elements whose Context1 / Context2 / Context3 / TaskName / GAVersion / OpcodeName / CapabilityUsed values decode to exactly the original strings; over all ACCEPTED POSTs no marker occurs twice and all POSTs containing a marker are byte-identical (re-sends of one batch); an event that cannot fit alone appears in no POST; every other event is posted and, unless the host refused all five attempts of its batch, accepted; the run ends and every consumed .json file is gone. non-trivial: a batch boundary was crossed, or an oversize event or a failure pattern is present, or a message contains markup; distinct by hash of the case.";

struct HostState {
    faults: VecDeque<Option<PostFault>>,
    posts: Vec<(Vec<u8>, bool)>,
    port: u16,
    /// every marker of the case under evaluation starts with this tag; uploads that carry markers of an EARLIER case come from
    /// a reader that a starved machine did not let finish in time: they are answered and not counted
    case_tag: String,
}

static CASE_NO: std::sync::atomic::AtomicU64 = std::sync::atomic::AtomicU64::new(0);

fn parse_batch(body: &[u8]) -> Result<Vec<BTreeMap<String, String>>, String> {
    use xml::reader::{EventReader as XR, XmlEvent};
    let mut events: Vec<BTreeMap<String, String>> = Vec::new();
    let mut stack: Vec<String> = Vec::new();
    let mut cdata = String::new();
    for e in XR::new(body) {
        match e.map_err(|e| format!("outer document not well-formed: {}", e))? {
            XmlEvent::StartElement { name, .. } => {
                stack.push(name.local_name.clone());
                let ok = match stack.len() {
                    1 => name.local_name == "TelemetryData",
                    2 => name.local_name == "Provider",
                    3 => name.local_name == "Event",
                    _ => false,
                };
                if !ok {
                    return Err(format!("unexpected element <{}> at depth {}: the document structure was altered", name.local_name, stack.len()));
                }
                cdata.clear();
            }
            XmlEvent::EndElement { .. } => {
                if stack.len() == 3 {
                    // parse the character data as a fragment
                    let frag = format!("<r>{}</r>", cdata);
                    let mut params = BTreeMap::new();
                    let mut depth = 0;
                    for fe in XR::new(frag.as_bytes()) {
                        match fe.map_err(|e| format!("event payload not well-formed: {}", e))? {
                            XmlEvent::StartElement { name, attributes, .. } => {
                                depth += 1;
                                if depth == 2 {
                                    if name.local_name != "Param" {
                                        return Err(format!("unexpected element <{}> inside an event payload", name.local_name));
                                    }
                                    let mut n = None;
                                    let mut v = None;
                                    for a in attributes {
                                        if a.name.local_name == "Name" {
                                            n = Some(a.value);
                                        } else if a.name.local_name == "Value" {
                                            v = Some(a.value);
                                        }
                                    }
                                    match (n, v) {
                                        (Some(n), Some(v)) => {
                                            if params.insert(n.clone(), v).is_some() {
                                                return Err(format!("parameter {} occurs twice in one event", n));
                                            }
                                        }
                                        _ => return Err("Param without Name/Value".into()),
                                    }
                                } else if depth > 2 {
                                    return Err(format!("nested element <{}> inside a Param", name.local_name));
                                }
                            }
                            XmlEvent::EndElement { .. } => depth -= 1,
                            XmlEvent::Characters(t) if depth >= 1 && !t.trim().is_empty() => return Err(format!("stray text {:?} inside an event payload", t.chars().take(40).collect::<String>())),
                            _ => {}
                        }
                    }
                    events.push(params);
                }
                stack.pop();
            }
            XmlEvent::CData(t) | XmlEvent::Characters(t) => {
                if stack.len() == 3 {
                    cdata.push_str(&t);
                } else if !t.trim().is_empty() {
                    return Err(format!("stray text outside events: {:?}", t.chars().take(40).collect::<String>()));
                }
            }
            _ => {}
        }
    }
    Ok(events)
}

fn eval(mock: &Mock, host: &Arc<Mutex<HostState>>, workdir: &str, case: &Case, stats: &mut Stats) -> Outcome {
    // a directory and a marker tag of its own for every evaluation: a reader of an earlier evaluation that is still around
    // (it was cancelled but not yet scheduled) can neither consume this case's files nor be mistaken for this case's reader
    let case_no = CASE_NO.fetch_add(1, std::sync::atomic::Ordering::SeqCst) % 100_000_000;
    let tag = format!("c{:08}-", case_no);
    let dir = std::path::PathBuf::from(format!("{}/events-{}", workdir, case_no));
    let _ = std::fs::remove_dir_all(&dir);
    if case_no >= 4 {
        let _ = std::fs::remove_dir_all(format!("{}/events-{}", workdir, case_no - 4));
    }
    std::fs::create_dir_all(&dir).unwrap();
    // markers and event files
    let mut originals: BTreeMap<String, (GEvent, usize)> = BTreeMap::new();
    let mut files: Vec<Vec<GEvent>> = case.files.clone();
    let mut exact_target: Option<(usize, usize)> = None; // (file index, batch bytes)
    if let (Some((delta, n)), Some((h, f))) = (case.exact, *CAL.lock().unwrap()) {
        let n = n as usize;
        let target = (65536i64 + delta as i64) as usize;
        let text = target - h - n * f;
        let mut evs = Vec::new();
        for i in 0..n {
            let len = if i + 1 == n { text - (text / n) * (n - 1) } else { text / n };
            evs.push(GEvent { message: "m".repeat(len), task: "start".into(), level: "INFO".into(), op: String::new(), version: String::new(), stamp: String::new() });
        }
        exact_target = Some((files.len(), target));
        files.push(evs);
    }
    for (fi, f) in files.iter().enumerate() {
        let mut arr = Vec::new();
        for (ei, e) in f.iter().enumerate() {
            let marker = format!("{}marker-f{}-e{}{}", tag, fi, ei, e.op);
            originals.insert(marker.clone(), (e.clone(), fi));
            let version = if e.version.is_empty() { "9.9.9".to_string() } else { e.version.clone() };
            let stamp = if e.stamp.is_empty() { "2026-01-01T00:00:00.000".to_string() } else { e.stamp.clone() };
            arr.push(serde_json::json!({"EventLevel": e.level, "Message": e.message, "Version": version, "TaskName": e.task, "EventPid": "4242", "EventTid": "7", "OperationId": marker, "TimeStamp": stamp}));
        }
        std::fs::write(dir.join(format!("{:020}.json", 1000 + fi)), serde_json::to_vec(&arr).unwrap()).unwrap();
    }
    {
        let mut h = host.lock().unwrap();
        h.faults = case.faults.iter().cloned().collect();
        h.posts.clear();
        h.case_tag = tag.clone();
    }
    let _ = mock.take_requests();
    let port = host.lock().unwrap().port;
    // run the reader
    let done = Arc::new(std::sync::atomic::AtomicBool::new(false));
    let rt = tokio::runtime::Builder::new_current_thread().enable_all().start_paused(true).build().unwrap();
    let dir2 = dir.clone();
    let done2 = done.clone();
    let host2 = host.clone();
    // watchdog/terminator on a std thread with the wall clock
    let shared_cell: Arc<Mutex<Option<tokio_util_token::Token>>> = Arc::new(Mutex::new(None));
    let cell2 = shared_cell.clone();
    let expected_files = files.len();
    let watcher = std::thread::spawn(move || -> Result<(), String> {
        let t0 = Instant::now();
        let mut stable_since: Option<(Instant, usize)> = None;
        loop {
            std::thread::sleep(Duration::from_millis(3));
            let left = std::fs::read_dir(&dir2).map(|rd| rd.flatten().filter(|e| e.file_name().to_string_lossy().ends_with(".json")).count()).unwrap_or(0);
            let posts = host2.lock().unwrap().posts.len();
            if left == 0 {
                match stable_since {
                    Some((since, n)) if n == posts => {
                        if since.elapsed() > Duration::from_millis(40) {
                            break;
                        }
                    }
                    _ => stable_since = Some((Instant::now(), posts)),
                }
            } else {
                stable_since = None;
            }
            if t0.elapsed() > Duration::from_secs(25) {
                if let Some(t) = cell2.lock().unwrap().as_ref() {
                    t.cancel();
                }
                done2.store(true, std::sync::atomic::Ordering::SeqCst);
                return Err(format!("reader did not finish within 25 s of wall clock: {} of {} files left, {} posts", left, expected_files, posts));
            }
        }
        if let Some(t) = cell2.lock().unwrap().as_ref() {
            t.cancel();
        }
        done2.store(true, std::sync::atomic::Ordering::SeqCst);
        Ok(())
    });
    // the reader runs on its own thread: if it ever spins without reaching an await point, the verdict is still given
    let (tx, rx) = std::sync::mpsc::channel::<()>();
    let dir3 = dir.clone();
    let reader_thread = std::thread::spawn(move || {
        rt.block_on(async {
            let shared = SharedState::start_all();
            *shared_cell.lock().unwrap() = Some(tokio_util_token::Token(shared.get_cancellation_token()));
            let reader = EventReader::new(dir3, false, shared.get_cancellation_token(), shared.get_key_keeper_shared_state(), shared.get_telemetry_shared_state(), shared.get_agent_status_shared_state());
            reader.start(Some(Duration::from_millis(10)), Some("127.0.0.1"), Some(port)).await;
        });
        drop(rt);
        let _ = tx.send(());
    });
    let mut term = watcher.join().unwrap_or_else(|_| Err("watcher panicked".into()));
    if rx.recv_timeout(Duration::from_secs(if term.is_ok() { 60 } else { 5 })).is_ok() {
        let _ = reader_thread.join();
    } else if term.is_ok() {
        term = Err("the reader did not return after it was cancelled (it no longer reaches an await point)".into());
    }
    let _ = done;
    let posts: Vec<(Vec<u8>, bool)> = host.lock().unwrap().posts.clone();

    // ---- classification ----
    let any_markup = originals.values().any(|(e, _)| e.message.contains('<') || e.message.contains('&') || e.message.contains("]]"));
    let any_fault = case.faults.iter().any(|f| f.is_some());
    stats.class_n("posts", posts.len() as u64);
    stats.class_n("events", originals.len() as u64);
    if any_fault {
        stats.class("case:failure-pattern");
    }
    if any_markup {
        stats.class("case:markup-in-message");
    }

    // ---- oracle ----
    if let Err(e) = term {
        return Outcome::fail("telemetry:processing-does-not-terminate", e);
    }
    let left: Vec<String> = std::fs::read_dir(&dir).map(|rd| rd.flatten().map(|e| e.file_name().to_string_lossy().to_string()).filter(|n| n.ends_with(".json")).collect()).unwrap_or_default();
    if !left.is_empty() {
        return Outcome::fail("telemetry:consumed-files-not-removed", format!("{:?}", left));
    }
    let mut seen_accepted: BTreeMap<String, usize> = BTreeMap::new();
    let mut body_of_marker: BTreeMap<String, usize> = BTreeMap::new();
    let mut attempts_of_body: BTreeMap<Vec<u8>, (usize, bool)> = BTreeMap::new();
    let mut posted: BTreeMap<String, bool> = BTreeMap::new();
    for (pi, (body, accepted)) in posts.iter().enumerate() {
        if body.len() >= 65536 {
            return Outcome::fail("telemetry:batch-not-smaller-than-64KiB", format!("POST {} has {} bytes", pi, body.len()));
        }
        let evs = match parse_batch(body) {
            Ok(e) => e,
            Err(e) => return Outcome::fail("telemetry:batch-not-well-formed-or-structure-altered", format!("POST {}: {}; body starts {:?}", pi, e, String::from_utf8_lossy(&body[..body.len().min(300)]))),
        };
        let a = attempts_of_body.entry(body.clone()).or_insert((0, false));
        a.0 += 1;
        a.1 |= *accepted;
        let first_time = a.0 == 1;
        for p in &evs {
            let marker = p.get("Context3").cloned().unwrap_or_default();
            let (orig, _) = match originals.get(&marker) {
                Some(o) => o,
                None => return Outcome::fail("telemetry:unknown-event-in-batch", format!("POST {}: marker {:?}", pi, marker)),
            };
            if p.get("Context1") != Some(&orig.message) {
                let got = p.get("Context1").cloned().unwrap_or_default();
                return Outcome::fail("telemetry:event-text-not-delivered-as-data", format!("POST {} event {}: text of {} bytes arrived as {} bytes; original starts {:?}, arrived {:?}", pi, marker, orig.message.len(), got.len(), orig.message.chars().take(60).collect::<String>(), got.chars().take(60).collect::<String>()));
            }
            if p.get("TaskName") != Some(&orig.task) {
                return Outcome::fail("telemetry:event-text-not-delivered-as-data", format!("POST {} event {}: task name {:?} arrived as {:?}", pi, marker, orig.task, p.get("TaskName")));
            }
            let version = if orig.version.is_empty() { "9.9.9".to_string() } else { orig.version.clone() };
            let stamp = if orig.stamp.is_empty() { "2026-01-01T00:00:00.000".to_string() } else { orig.stamp.clone() };
            for (param, want) in [("GAVersion", &version), ("OpcodeName", &stamp), ("Context2", &stamp), ("CapabilityUsed", &orig.level)] {
                if p.get(param) != Some(want) {
                    return Outcome::fail("telemetry:event-text-not-delivered-as-data", format!("POST {} event {}: {} {:?} arrived as {:?}", pi, marker, param, want, p.get(param)));
                }
            }
            match body_of_marker.get(&marker) {
                Some(prev) if posts[*prev].0 != *body => {
                    return Outcome::fail("telemetry:event-uploaded-in-more-than-one-batch", format!("event {} is in POST {} and in the different POST {}", marker, prev, pi));
                }
                None => {
                    body_of_marker.insert(marker.clone(), pi);
                }
                _ => {}
            }
            if *accepted {
                let c = seen_accepted.entry(marker.clone()).or_insert(0);
                *c += 1;
                if *c > 1 {
                    return Outcome::fail("telemetry:event-accepted-twice", format!("event {} was in {} accepted POSTs", marker, c));
                }
            }
            let e = posted.entry(marker).or_insert(false);
            *e |= *accepted;
        }
        let _ = first_time;
    }
    if let Some((fi, target)) = exact_target {
        let prefix = format!("{}marker-f{}-", tag, fi);
        let sizes: Vec<usize> = posts.iter().filter(|(b, _)| String::from_utf8_lossy(b).contains(&prefix)).map(|(b, _)| b.len()).collect();
        stats.class(&format!("exact-batch:65536{:+}", target as i64 - 65536));
        if target < 65536 && !any_fault && sizes != vec![target] {
            // the size computation (not the agent) is off: say so instead of judging
            stats.class("exact-batch:size-computation-missed(not judged)");
        }
    }
    // every event that fits alone was posted; oversize ones never
    let mut crossed = false;
    let mut oversize = false;
    for (marker, (e, _)) in &originals {
        // size of the batch with this event alone, by the wire format the property describes (measured on what was posted when available)
        let escaped: usize = e.message.chars().map(|c| match c { '&' => 5, '\'' | '"' => 6, '<' | '>' => 4, c => c.len_utf8() }).sum();
        let alone_lower_bound = escaped + 1200; // fixed parameters of an event are > 1200 bytes in this environment
        let alone_upper_bound = escaped + 2600;
        if alone_lower_bound >= 65536 {
            oversize = true;
            if posted.contains_key(marker) {
                return Outcome::fail("telemetry:oversize-event-uploaded", format!("event {} ({} escaped bytes) cannot fit a batch but was posted", marker, escaped));
            }
        } else if alone_upper_bound < 65536 {
            match posted.get(marker) {
                None => return Outcome::fail("telemetry:event-lost", format!("event {} ({} escaped bytes) fits a batch but was never posted ({} posts, faults {:?})", marker, escaped, posts.len(), case.faults)),
                Some(false) => {
                    let body = &posts[body_of_marker[marker]].0;
                    let (n, _) = attempts_of_body[body];
                    if n < 5 {
                        return Outcome::fail("telemetry:batch-given-up-before-five-attempts", format!("event {}: its batch was posted {} times, never accepted", marker, n));
                    }
                }
                Some(true) => {}
            }
        }
    }
    let distinct_bodies = attempts_of_body.len();
    if distinct_bodies >= 2 {
        crossed = true;
        stats.class("case:batch-boundary-crossed");
    }
    if oversize {
        stats.class("case:oversize-event");
    }
    for (_, (n, _)) in &attempts_of_body {
        if *n > 5 {
            return Outcome::fail("telemetry:batch-retried-more-than-five-times", format!("{} attempts", n));
        }
    }
    if crossed || oversize || any_fault || any_markup || exact_target.is_some() {
        stats.nontrivial_hash(h64(case));
    }
    stats.sample(|| serde_json::json!({"exact_batch_bytes": exact_target.map(|t| t.1), "files": case.files.iter().map(|f| f.iter().map(|e| serde_json::json!({"message_bytes": e.message.len(), "message_start": e.message.chars().take(40).collect::<String>(), "task": e.task})).collect::<Vec<_>>()).collect::<Vec<_>>(), "faults": case.faults, "posts": posts.iter().map(|(b, a)| (b.len(), *a)).collect::<Vec<_>>()}));
    Outcome::Pass
}

mod tokio_util_token {
    /// thin holder so that the std watcher thread can cancel the reader
    pub struct Token(pub tokio_util::sync::CancellationToken);
    impl Token {
        pub fn cancel(&self) {
            self.0.cancel()
        }
    }
}

fn main() {
    let params = Params::from_env();
    gpa_verif::runner::install_panic_hook();
    gpa_verif::runner::SHRINK_ITERS.store(200, std::sync::atomic::Ordering::Relaxed);
    let known = Known::load(&params.prop);
    let mut stats = Stats::new();
    let t0 = Instant::now();
    let th = params.thorough();
    // loopback only: no namespace needed; the mock listens on an ephemeral port
    let mock = Mock::new();
    let port = mock.listen("host", "127.0.0.1:0").expect("mock listen");
    let host = Arc::new(Mutex::new(HostState { faults: VecDeque::new(), posts: Vec::new(), port, case_tag: String::new() }));
    {
        let host = host.clone();
        mock.set_responder(Box::new(move |r: &Recorded| {
            let mut h = host.lock().unwrap();
            if r.method == "GET" && r.target == "/machine?comp=goalstate" {
                let body = gpa_verif::canned::GOAL_STATE.replace("##ip##", "127.0.0.1").replace("##port##", &h.port.to_string());
                return ResponseSpec::ok(body.as_bytes()).with_header("Content-Type", "text/xml; charset=utf-8");
            }
            if r.method == "GET" && r.target.contains("type=sharedConfig") {
                return ResponseSpec::ok(gpa_verif::canned::SHARED_CONFIG.as_bytes()).with_header("Content-Type", "text/xml; charset=utf-8");
            }
            if r.method == "GET" && r.target.starts_with("/metadata/instance") {
                return ResponseSpec::ok(gpa_verif::canned::INSTANCE.as_bytes()).with_header("Content-Type", "application/json; charset=utf-8");
            }
            if r.method == "POST" && r.target == "/machine/?comp=telemetrydata" {
                let find = |hay: &[u8], needle: &[u8]| hay.windows(needle.len().max(1)).any(|w| w == needle);
                if !h.case_tag.is_empty() && !find(&r.body, h.case_tag.as_bytes()) && find(&r.body, b"-marker-f") {
                    return ResponseSpec::ok(b"");
                }
                let f = h.faults.pop_front().flatten();
                let accepted = matches!(f, None | Some(PostFault::Late(_)));
                h.posts.push((r.body.clone(), accepted));
                return match f {
                    None => ResponseSpec::ok(b""),
                    Some(PostFault::Status(c)) => ResponseSpec::status(c, b"refused"),
                    Some(PostFault::Reset) => {
                        let mut s = ResponseSpec::ok(b"");
                        s.reset = true;
                        s
                    }
                    Some(PostFault::Late(ms)) => {
                        let mut s = ResponseSpec::ok(b"");
                        s.delay_ms = ms as u64;
                        s
                    }
                };
            }
            ResponseSpec::status(404, b"")
        }));
    }
    let workdir = format!("{}.work", params.out);
    let _ = std::fs::create_dir_all(&workdir);
    // measure the fixed sizes: one and two events with empty messages
    {
        let ev = || GEvent { message: String::new(), task: "start".into(), level: "INFO".into(), op: String::new(), version: String::new(), stamp: String::new() };
        let mut tmp = Stats::new();
        let mut size_of = |k: usize| -> Option<usize> {
            let c = Case { files: vec![(0..k).map(|_| ev()).collect()], faults: vec![], exact: None };
            let _ = eval(&mock, &host, &workdir, &c, &mut tmp);
            let posts = host.lock().unwrap().posts.clone();
            if posts.len() == 1 { Some(posts[0].0.len()) } else { None }
        };
        if let (Some(l1), Some(l2)) = (size_of(1), size_of(2)) {
            if l2 > l1 && 2 * l1 > l2 {
                *CAL.lock().unwrap() = Some((2 * l1 - l2, l2 - l1));
            }
        }
        stats.class(&format!("start-up:fixed-sizes-measured={:?}", *CAL.lock().unwrap()));
    }
    let n = params.share(if th { 30_000 } else { 640 });
    Drive { params: &params, stats: &mut stats, known: &known }.run("c18.telemetry", 18, strategy(), n, |c, s| eval(&mock, &host, &workdir, c, s));
    for p in gpa_verif::runner::take_panics() {
        let sig = gpa_verif::runner::panic_signature(&p);
        stats.violation(gpa_verif::report::Violation { signature: sig, detail: format!("panic at {}: {}", p.location, p.message.chars().take(300).collect::<String>()), replay: serde_json::json!({"engine": "panic-hook"}) });
    }
    let _ = std::fs::remove_dir_all(&workdir);
    let assumptions = ["event files hold JSON arrays of the agent's Event type, as the event logger writes them", "the fixed (non-message) parameters of one event take between 1200 and 2600 bytes in this environment (used only to decide which events clearly fit / clearly cannot fit a batch; the band in between is not asserted)", "virtual time: the retry sleeps elapse on tokio's paused clock; the harness's own watchdog uses the wall clock"];
    stats.write_worker_files(&params.out, &params.prop, RULE, &assumptions, t0.elapsed().as_secs_f64());
    std::process::exit(0);
}
