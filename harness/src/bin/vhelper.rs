//! Stand-in caller process for the end-to-end rig: accepts any argv, does nothing, exits when its parent dies.
//! With VHELPER_ALT=<path> in the environment it replaces its own image by that executable (same pid, same
//! argv tail) whenever it receives SIGUSR1 - a process that `exec`s another program.
use std::sync::atomic::{AtomicBool, Ordering};

static MORPH: AtomicBool = AtomicBool::new(false);

extern "C" fn on_usr1(_: libc::c_int) {
    MORPH.store(true, Ordering::SeqCst);
}

fn main() {
    let alt = std::env::var("VHELPER_ALT").ok();
    if alt.is_some() {
        // SIGUSR1 is blocked across spawn and exec (see below and ns.rs): a signal that arrives before the handler
        // is installed stays pending instead of killing the new image
        unsafe {
            libc::signal(libc::SIGUSR1, on_usr1 as *const () as usize);
            let mut set: libc::sigset_t = std::mem::zeroed();
            libc::sigemptyset(&mut set);
            libc::sigaddset(&mut set, libc::SIGUSR1);
            libc::sigprocmask(libc::SIG_UNBLOCK, &set, std::ptr::null_mut());
        }
    }
    loop {
        std::thread::sleep(std::time::Duration::from_millis(if alt.is_some() { 2 } else { 3_600_000 }));
        if MORPH.swap(false, Ordering::SeqCst) {
            if let Some(alt) = &alt {
                use std::os::unix::process::CommandExt;
                let me = std::env::current_exe().map(|p| p.display().to_string()).unwrap_or_default();
                let args: Vec<String> = std::env::args().skip(1).collect();
                unsafe {
                    let mut set: libc::sigset_t = std::mem::zeroed();
                    libc::sigemptyset(&mut set);
                    libc::sigaddset(&mut set, libc::SIGUSR1);
                    libc::sigprocmask(libc::SIG_BLOCK, &set, std::ptr::null_mut());
                }
                let err = std::process::Command::new(alt).args(&args).env("VHELPER_ALT", me).exec();
                eprintln!("vhelper: exec {} failed: {}", alt, err);
            }
        }
    }
}
