//! Stand-in caller process for the end-to-end rig: accepts any argv, does nothing, exits when its parent dies.
fn main() {
    loop {
        std::thread::sleep(std::time::Duration::from_secs(3600));
    }
}
