//! Canned host documents, copied verbatim from the repository's own test_mock/server_mock.rs.

pub const GOAL_STATE: &str = r####"<?xml version="1.0" encoding="utf-8"?>
            <GoalState xmlns:xsi="http://www.w3.org/2001/XMLSchema-instance" xsi:noNamespaceSchemaLocation="goalstate10.xsd">
              <Version>2015-04-05</Version>
              <Incarnation>16</Incarnation>
              <Machine>
                <ExpectedState>Started</ExpectedState>
                <StopRolesDeadlineHint>300000</StopRolesDeadlineHint>
                <LBProbePorts>
                  <Port>16001</Port>
                </LBProbePorts>
                <ExpectHealthReport>TRUE</ExpectHealthReport>
                <Package>http://##ip##:##port##/machine/?comp=package&amp;incarnation=Win8-Win8_2.7.32211.3_221108-1339_GuestAgentPackage_NoWER.zip</Package>
                <PackageIncarnation>Win8-Win8_2.7.32211.3_221108-1339_GuestAgentPackage_NoWER.zip</PackageIncarnation>
              </Machine>
              <Container>
                <ContainerId>374188df-b0a2-456a-a7b2-83f28b18d36f</ContainerId>
                <RoleInstanceList>
                  <RoleInstance>
                    <InstanceId>7d2798bb72a0413d9a60b355277df726.TenantAdminApi.Worker_IN_0</InstanceId>
                    <State>Started</State>
                    <Configuration>
                      <HostingEnvironmentConfig>http://##ip##:##port##/machine/374188df-b0a2-456a-a7b2-83f28b18d36f/7d2798bb72a0413d9a60b355277df726.TenantAdminApi.Worker%5FIN%5F0?comp=config&amp;type=hostingEnvironmentConfig&amp;incarnation=16</HostingEnvironmentConfig>
                      <SharedConfig>http://##ip##:##port##/machine/374188df-b0a2-456a-a7b2-83f28b18d36f/7d2798bb72a0413d9a60b355277df726.TenantAdminApi.Worker%5FIN%5F0?comp=config&amp;type=sharedConfig&amp;incarnation=16</SharedConfig>
                      <ExtensionsConfig>http://##ip##:##port##/machine/374188df-b0a2-456a-a7b2-83f28b18d36f/7d2798bb72a0413d9a60b355277df726.TenantAdminApi.Worker%5FIN%5F0?comp=config&amp;type=extensionsConfig&amp;incarnation=16</ExtensionsConfig>
                      <FullConfig>http://##ip##:##port##/machine/374188df-b0a2-456a-a7b2-83f28b18d36f/7d2798bb72a0413d9a60b355277df726.TenantAdminApi.Worker%5FIN%5F0?comp=config&amp;type=fullConfig&amp;incarnation=16</FullConfig>
                      <Certificates>http://##ip##:##port##/machine/374188df-b0a2-456a-a7b2-83f28b18d36f/7d2798bb72a0413d9a60b355277df726.TenantAdminApi.Worker%5FIN%5F0?comp=certificates&amp;incarnation=16</Certificates>
                      <ConfigName>7d2798bb72a0413d9a60b355277df726.132.7d2798bb72a0413d9a60b355277df726.78.TenantAdminApi.Worker_IN_0.1.xml</ConfigName>
                    </Configuration>
                  </RoleInstance>
                </RoleInstanceList>
              </Container>
            </GoalState>"####;

pub const SHARED_CONFIG: &str = r####"<?xml version="1.0" encoding="utf-8"?>
            <SharedConfig version="1.0.0.0" goalStateIncarnation="16">
              <Deployment name="7d2798bb72a0413d9a60b355277df726" guid="{25a2c1a1-2986-4d1c-bd37-6abe8571218d}" incarnation="132" isNonCancellableTopologyChangeEnabled="false">
                <Service name="TenantAdminApi.Cloud" guid="{00000000-0000-0000-0000-000000000000}" />
                <ServiceInstance name="7d2798bb72a0413d9a60b355277df726.78" guid="{2733116f-69db-411d-91a0-a1f55849ba23}" />
              </Deployment>
              <Incarnation number="1" instance="TenantAdminApi.Worker_IN_0" guid="{b0b40fde-461e-461b-a451-af58347321a9}" />
              <Role guid="{953935f8-9317-74e0-4236-7854486dd013}" name="TenantAdminApi.Worker" settleTimeSeconds="0" />
              <LoadBalancerSettings timeoutSeconds="32" waitLoadBalancerProbeCount="8">
                <Probes>
                  <Probe name="DataAPI.Worker" />
                  <Probe name="EE594D782E1C6640A88F13C68ACE44E2" />
                  <Probe name="7DFC3BF5C3491DDCE7AE643C84D4D28D" />
                </Probes>
              </LoadBalancerSettings>
              <OutputEndpoints />
              <Instances>
                <Instance id="TenantAdminApi.Worker_IN_0" address="10.1.64.6">
                  <FaultDomains randomId="0" updateId="0" updateCount="1" />
                  <InputEndpoints>
                    <Endpoint name="HttpsEndpoint" address="10.1.64.6:443" protocol="https" certificateId="sha1:0553937140F34E9E22A9032E7CA0EE478D3E5662" enableClientCertNegotiation="false" hostName="dodce-a-01-api-interfaces-byoip" isPublic="true" loadBalancedPublicAddress="52.127.68.35:443" enableDirectServerReturn="false" isDirectAddress="false" disableStealthMode="false">
                      <LocalPorts>
                        <LocalPortRange from="443" to="443" />
                      </LocalPorts>
                    </Endpoint>
                  </InputEndpoints>
                </Instance>
              </Instances>
            </SharedConfig>"####;

pub const INSTANCE: &str = r####"{
                "compute": {
                    "azEnvironment": "AZUREPUBLICCLOUD",
                    "additionalCapabilities": {
                        "hibernationEnabled": "true"
                    },
                    "hostGroup": {
                      "id": "testHostGroupId"
                    }, 
                    "extendedLocation": {
                        "type": "edgeZone",
                        "name": "microsoftlosangeles"
                    },
                    "evictionPolicy": "",
                    "isHostCompatibilityLayerVm": "true",
                    "licenseType":  "Windows_Client",
                    "location": "westus",
                    "name": "examplevmname",
                    "offer": "WindowsServer",
                    "osProfile": {
                        "adminUsername": "admin",
                        "computerName": "examplevmname",
                        "disablePasswordAuthentication": "true"
                    },
                    "osType": "Windows",
                    "placementGroupId": "f67c14ab-e92c-408c-ae2d-da15866ec79a",
                    "plan": {
                        "name": "planName",
                        "product": "planProduct",
                        "publisher": "planPublisher"
                    },
                    "platformFaultDomain": "36",
                    "platformSubFaultDomain": "",        
                    "platformUpdateDomain": "42",
                    "priority": "Regular",
                    "publicKeys": [{
                            "keyData": "ssh-rsa 0",
                            "path": "/home/user/.ssh/authorized_keys0"
                        },
                        {
                            "keyData": "ssh-rsa 1",
                            "path": "/home/user/.ssh/authorized_keys1"
                        }
                    ],
                    "publisher": "RDFE-Test-Microsoft-Windows-Server-Group",
                    "resourceGroupName": "macikgo-test-may-23",
                    "resourceId": "/subscriptions/xxxxxxxx-xxxx-xxxx-xxxx-xxxxxxxxxxx/resourceGroups/macikgo-test-may-23/providers/Microsoft.Compute/virtualMachines/examplevmname",
                    "securityProfile": {
                        "secureBootEnabled": "true",
                        "virtualTpmEnabled": "false",
                        "encryptionAtHost": "true",
                        "securityType": "TrustedLaunch"
                    },
                    "sku": "2019-Datacenter",
                    "storageProfile": {
                        "dataDisks": [{
                            "bytesPerSecondThrottle": "979202048",
                            "caching": "None",
                            "createOption": "Empty",
                            "diskCapacityBytes": "274877906944",
                            "diskSizeGB": "1024",
                            "image": {
                              "uri": ""
                            },
                            "isSharedDisk": "false",
                            "isUltraDisk": "true",
                            "lun": "0",
                            "managedDisk": {
                              "id": "/subscriptions/xxxxxxxx-xxxx-xxxx-xxxx-xxxxxxxxxxx/resourceGroups/macikgo-test-may-23/providers/Microsoft.Compute/disks/exampledatadiskname",
                              "storageAccountType": "StandardSSD_LRS"
                            },
                            "name": "exampledatadiskname",
                            "opsPerSecondThrottle": "65280",
                            "vhd": {
                              "uri": ""
                            },
                            "writeAcceleratorEnabled": "false"
                        }],
                        "imageReference": {
                            "id": "",
                            "offer": "WindowsServer",
                            "publisher": "MicrosoftWindowsServer",
                            "sku": "2019-Datacenter",
                            "version": "latest"
                        },
                        "osDisk": {
                            "caching": "ReadWrite",
                            "createOption": "FromImage",
                            "diskSizeGB": "30",
                            "diffDiskSettings": {
                                "option": "Local"
                            },
                            "encryptionSettings": {
                              "enabled": "false",
                              "diskEncryptionKey": {
                                "sourceVault": {
                                  "id": "/subscriptions/test-source-guid/resourceGroups/testrg/providers/Microsoft.KeyVault/vaults/test-kv"
                                },
                                "secretUrl": "https://test-disk.vault.azure.net/secrets/xxxxxxxx-xxxx-xxxx-xxxx-xxxxxxxxxxx/xxxxxxxx-xxxx-xxxx-xxxx-xxxxxxxxxxx"
                              },
                              "keyEncryptionKey": {
                                "sourceVault": {
                                  "id": "/subscriptions/test-key-guid/resourceGroups/testrg/providers/Microsoft.KeyVault/vaults/test-kv"
                                },
                                "keyUrl": "https://test-key.vault.azure.net/secrets/xxxxxxxx-xxxx-xxxx-xxxx-xxxxxxxxxxx/xxxxxxxx-xxxx-xxxx-xxxx-xxxxxxxxxxx"
                              }
                            },
                            "image": {
                                "uri": ""
                            },
                            "managedDisk": {
                                "id": "/subscriptions/xxxxxxxx-xxxx-xxxx-xxxx-xxxxxxxxxxx/resourceGroups/macikgo-test-may-23/providers/Microsoft.Compute/disks/exampleosdiskname",
                                "storageAccountType": "StandardSSD_LRS"
                            },
                            "name": "exampleosdiskname",
                            "osType": "Windows",
                            "vhd": {
                                "uri": ""
                            },
                            "writeAcceleratorEnabled": "false"
                        },
                        "resourceDisk": {
                            "size": "4096"
                        }
                    },
                    "subscriptionId": "xxxxxxxx-xxxx-xxxx-xxxx-xxxxxxxxxxx",
                    "tags": "baz:bash;foo:bar",
                    "userData": "Zm9vYmFy",
                    "version": "15.05.22",
                    "virtualMachineScaleSet": {
                        "id": "/subscriptions/xxxxxxxx-xxxx-xxx-xxx-xxxx/resourceGroups/resource-group-name/providers/Microsoft.Compute/virtualMachineScaleSets/virtual-machine-scale-set-name"
                    },
                    "vmId": "02aab8a4-74ef-476e-8182-f6d2ba4166a6",
                    "vmScaleSetName": "crpteste9vflji9",
                    "vmSize": "Standard_A3",
                    "zone": ""
                },
                "network": {
                    "interface": [{
                        "ipv4": {
                           "ipAddress": [{
                                "privateIpAddress": "10.144.133.132",
                                "publicIpAddress": ""
                            }],
                            "subnet": [{
                                "address": "10.144.133.128",
                                "prefix": "26"
                            }]
                        },
                        "ipv6": {
                            "ipAddress": [
                             ]
                        },
                        "macAddress": "0011AAFFBB22"
                    }]
                }
            }"####;
