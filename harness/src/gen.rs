//! Generators for rule documents, caller claims and request URLs (C01 C02 C03 C09 C11).
//! Small colliding alphabets on purpose: matches, case variants, prefix-related keys, duplicate and
//! dangling names must be frequent, not accidental.

use proptest::prelude::*;
use serde::{Deserialize, Serialize};
use serde_json::{json, Map, Value};

#[derive(Clone, Debug, Serialize, Deserialize, Hash, PartialEq, Eq)]
pub struct GPriv {
    pub name: String,
    pub path: String,
    /// None = no queryParameters member; keys are unique as exact strings (JSON object)
    pub query: Option<Vec<(String, String)>>,
}
#[derive(Clone, Debug, Serialize, Deserialize, Hash, PartialEq, Eq)]
pub struct GRole {
    pub name: String,
    pub privileges: Vec<String>,
}
#[derive(Clone, Debug, Serialize, Deserialize, Hash, PartialEq, Eq)]
pub struct GIdent {
    pub name: String,
    pub user: Option<String>,
    pub group: Option<String>,
    pub exe: Option<String>,
    pub proc_name: Option<String>,
}
#[derive(Clone, Debug, Serialize, Deserialize, Hash, PartialEq, Eq)]
pub struct GAssign {
    pub role: String,
    pub identities: Vec<String>,
}
#[derive(Clone, Debug, Serialize, Deserialize, Hash, PartialEq, Eq)]
pub struct GDoc {
    pub mode: String,
    pub default_access: String,
    pub id: String,
    /// false = the `rules` member is absent altogether
    pub rules_present: bool,
    pub privileges: Option<Vec<GPriv>>,
    pub roles: Option<Vec<GRole>>,
    pub identities: Option<Vec<GIdent>>,
    pub assignments: Option<Vec<GAssign>>,
}
#[derive(Clone, Debug, Serialize, Deserialize, Hash, PartialEq, Eq)]
pub struct GClaims {
    pub uid: u64,
    pub user: String,
    pub groups: Vec<String>,
    pub proc_name: String,
    pub exe: String,
    pub cmdline: String,
    pub elevated: bool,
}

impl GDoc {
    /// The document as the host would send it (one `AuthorizationItem`).
    pub fn to_json(&self) -> Value {
        let mut item = Map::new();
        item.insert("defaultAccess".into(), json!(self.default_access));
        item.insert("mode".into(), json!(self.mode));
        item.insert("id".into(), json!(self.id));
        if self.rules_present {
            let mut rules = Map::new();
            if let Some(ps) = &self.privileges {
                rules.insert(
                    "privileges".into(),
                    Value::Array(
                        ps.iter()
                            .map(|p| {
                                let mut m = Map::new();
                                m.insert("name".into(), json!(p.name));
                                m.insert("path".into(), json!(p.path));
                                if let Some(q) = &p.query {
                                    let mut qm = Map::new();
                                    for (k, v) in q {
                                        qm.insert(k.clone(), json!(v));
                                    }
                                    m.insert("queryParameters".into(), Value::Object(qm));
                                }
                                Value::Object(m)
                            })
                            .collect(),
                    ),
                );
            }
            if let Some(rs) = &self.roles {
                rules.insert(
                    "roles".into(),
                    Value::Array(rs.iter().map(|r| json!({"name": r.name, "privileges": r.privileges})).collect()),
                );
            }
            if let Some(is) = &self.identities {
                rules.insert(
                    "identities".into(),
                    Value::Array(
                        is.iter()
                            .map(|i| {
                                let mut m = Map::new();
                                m.insert("name".into(), json!(i.name));
                                if let Some(v) = &i.user {
                                    m.insert("userName".into(), json!(v));
                                }
                                if let Some(v) = &i.group {
                                    m.insert("groupName".into(), json!(v));
                                }
                                if let Some(v) = &i.exe {
                                    m.insert("exePath".into(), json!(v));
                                }
                                if let Some(v) = &i.proc_name {
                                    m.insert("processName".into(), json!(v));
                                }
                                Value::Object(m)
                            })
                            .collect(),
                    ),
                );
            }
            if let Some(asg) = &self.assignments {
                rules.insert(
                    "roleAssignments".into(),
                    Value::Array(asg.iter().map(|a| json!({"role": a.role, "identities": a.identities})).collect()),
                );
            }
            item.insert("rules".into(), Value::Object(rules));
        }
        Value::Object(item)
    }

    /// content hash used as the rule id (the host's id is the hash of the rules).
    pub fn with_content_id(mut self) -> GDoc {
        self.id = String::new();
        let h = crate::report::h64(&self);
        self.id = format!("sha-{:016x}", h);
        self
    }
}

pub const PRIV_NAMES: &[&str] = &["p0", "p1", "p2", "p3"];
pub const ROLE_NAMES: &[&str] = &["r0", "r1", "r2"];
pub const IDENT_NAMES: &[&str] = &["i0", "i1", "i2", "i3"];
pub const PATHS: &[&str] = &[
    "/", "/a", "/a/b", "/ab", "/metadata/instance", "/metadata/identity", "/machine", "/vmagentlog", "/secure-channel", "/x%2Fy",
];
pub const QKEYS: &[&str] = &["a", "ab", "api-version", "comp", "k"];
pub const QVALS: &[&str] = &["1", "x", "ab", "2021-02-01", "goalstate", "%41b", "c=d", ""];
pub const USERS: &[&str] = &["root", "alice", "bob", "Alice", "undefined"];
pub const GROUPS: &[&str] = &["root", "wheel", "users", "Wheel", "g1"];
pub const PROCS: &[&str] = &["curl", "python3", "waagent", "Curl", "cur"];
// the helper processes of the end-to-end rig live at these paths (ns::RUN_ROOT/bin/<name>)
/// a rule can only state Unicode; a caller's executable path is arbitrary bytes. EXE_RAW stands for the path whose last byte
/// is 0xFF (the private-use character U+E0FF is turned into that byte by `exe_os`): it is NOT equal to EXE_LOSSY, the valid
/// path that shows U+FFFD there, although a lossy conversion of the former yields the latter
pub const EXE_LOSSY: &str = "/verif/run/bin/cur\u{FFFD}";
pub const EXE_RAW: &str = "/verif/run/bin/cur\u{E0FF}";

/// the caller's executable path as the operating system has it (U+E080..U+E0FF -> bytes 0x80..0xFF)
pub fn exe_os(s: &str) -> std::ffi::OsString {
    use std::os::unix::ffi::OsStringExt;
    let mut out = Vec::new();
    for ch in s.chars() {
        let c = ch as u32;
        if (0xE080..=0xE0FF).contains(&c) {
            out.push((c - 0xE000) as u8);
        } else {
            let mut b = [0u8; 4];
            out.extend_from_slice(ch.encode_utf8(&mut b).as_bytes());
        }
    }
    std::ffi::OsString::from_vec(out)
}

pub const EXES: &[&str] = &["/verif/run/bin/curl", "/verif/run/bin/python3", "/verif/run/bin/waagent", "/verif/run/bin/Curl", "/verif/run/bin/cur"];

pub fn sel(pool: &'static [&'static str]) -> impl Strategy<Value = String> {
    (0..pool.len()).prop_map(move |i| pool[i].to_string())
}

/// flip the case of the alphabetic characters selected by `mask` (bit i <-> i-th alphabetic char);
/// characters that are part of a %xx escape are flipped too (hex digits are case-insensitive data to nobody here:
/// the agent compares raw text).
pub fn flip_case(s: &str, mask: u32) -> String {
    let mut i = 0;
    s.chars()
        .map(|c| {
            if c.is_ascii_alphabetic() {
                let f = (mask >> (i % 32)) & 1 == 1;
                i += 1;
                if f {
                    if c.is_ascii_lowercase() {
                        c.to_ascii_uppercase()
                    } else {
                        c.to_ascii_lowercase()
                    }
                } else {
                    c
                }
            } else {
                c
            }
        })
        .collect()
}

/// a case mask that is 0 most of the time
pub fn case_mask() -> impl Strategy<Value = u32> {
    prop_oneof![
        6 => Just(0u32),
        1 => Just(u32::MAX),
        1 => Just(1u32),
        2 => any::<u32>(),
    ]
}

pub fn name_from(pool: &'static [&'static str], dangling: &'static str) -> impl Strategy<Value = String> {
    prop_oneof![
        12 => sel(pool),
        1 => Just(dangling.to_string()),
    ]
}

fn dedup_exact(mut q: Vec<(String, String)>) -> Vec<(String, String)> {
    let mut seen = std::collections::BTreeSet::new();
    q.retain(|(k, _)| seen.insert(k.clone()));
    q
}

pub fn gpriv() -> impl Strategy<Value = GPriv> {
    (
        sel(PRIV_NAMES),
        sel(PATHS),
        case_mask(),
        prop::option::weighted(0.45, prop::collection::vec((sel(QKEYS), case_mask(), sel(QVALS), case_mask()), 0..3)),
    )
        .prop_map(|(name, path, pm, q)| GPriv {
            name,
            path: flip_case(&path, pm),
            query: q.map(|v| dedup_exact(v.into_iter().map(|(k, km, v, vm)| (flip_case(&k, km), flip_case(&v, vm))).collect())),
        })
}

pub fn grole() -> impl Strategy<Value = GRole> {
    (sel(ROLE_NAMES), prop::collection::vec(name_from(PRIV_NAMES, "p9"), 0..5)).prop_map(|(name, privileges)| GRole { name, privileges })
}

pub fn gident() -> impl Strategy<Value = GIdent> {
    (
        sel(IDENT_NAMES),
        prop::option::weighted(0.5, sel(USERS)),
        prop::option::weighted(0.3, sel(GROUPS)),
        prop::option::weighted(0.3, prop_oneof![6 => sel(EXES), 1 => Just(EXE_LOSSY.to_string())]),
        prop::option::weighted(0.3, sel(PROCS)),
    )
        .prop_map(|(name, user, group, exe, proc_name)| GIdent { name, user, group, exe, proc_name })
}

pub fn gassign() -> impl Strategy<Value = GAssign> {
    (name_from(ROLE_NAMES, "r9"), prop::collection::vec(name_from(IDENT_NAMES, "i9"), 0..4)).prop_map(|(role, identities)| GAssign { role, identities })
}

pub fn mode_text() -> impl Strategy<Value = String> {
    prop_oneof![
        2 => Just("disabled"), 5 => Just("audit"), 8 => Just("enforce"),
        1 => Just("Enforce"), 1 => Just("AUDIT"), 1 => Just("Disabled"),
    ]
    .prop_map(|s| s.to_string())
}

pub fn default_access_text() -> impl Strategy<Value = String> {
    prop_oneof![4 => Just("allow"), 4 => Just("deny"), 1 => Just("Allow"), 1 => Just("DENY")].prop_map(|s| s.to_string())
}

fn maybe_section<T: std::fmt::Debug + Clone + 'static>(s: impl Strategy<Value = Vec<T>> + 'static) -> impl Strategy<Value = Option<Vec<T>>> {
    prop::option::weighted(0.96, s)
}

/// How a generated URL / claims value is tied to the generated document so that matches are frequent:
/// `priv_sel` picks one of the document's privileges (monotone index map), the URL path becomes that
/// privilege's path (+ the generated suffix) and the privilege's parameters selected by `param_mask`
/// are prepended to the query; `ident_sel` picks an identity whose stated attributes are copied into
/// the claims. `None` leaves the independently generated value alone.
#[derive(Clone, Debug, Serialize, Deserialize, Hash, PartialEq, Eq)]
pub struct Bind {
    pub priv_sel: Option<(u16, u8, u32)>,
    pub ident_sel: Option<u16>,
}

pub fn bind() -> impl Strategy<Value = Bind> {
    (prop::option::weighted(0.7, (any::<u16>(), prop_oneof![3 => Just(0xffu8), 1 => any::<u8>()], case_mask())), prop::option::weighted(0.6, any::<u16>()))
        .prop_map(|(priv_sel, ident_sel)| Bind { priv_sel, ident_sel })
}

pub fn apply_bind(doc: &GDoc, url: &GUrl, claims: &GClaims, b: &Bind) -> (GUrl, GClaims) {
    let mut u = url.clone();
    let mut c = claims.clone();
    if let (Some((sel, mask, cm)), Some(ps)) = (&b.priv_sel, &doc.privileges) {
        if !ps.is_empty() {
            let p = &ps[crate::runner::pick(*sel, ps.len())];
            // keep the generated suffix: everything the generated path has beyond its pool entry
            let suffix = PATHS.iter().filter(|pp| url.path.to_lowercase().starts_with(&pp.to_lowercase())).map(|pp| pp.len()).max().map(|n| url.path[n..].to_string()).unwrap_or_default();
            let mut path = flip_case(&p.path, *cm);
            if path.ends_with('/') && suffix.starts_with('/') {
                path.push_str(&suffix[1..]);
            } else {
                path.push_str(&suffix);
            }
            u.path = path;
            if let Some(q) = &p.query {
                let mut pieces: Vec<String> = q.iter().enumerate().filter(|(i, _)| (mask >> (i % 8)) & 1 == 1).map(|(_, (k, v))| format!("{}={}", flip_case(k, *cm), flip_case(v, cm.rotate_left(5)))).collect();
                if let Some(old) = &url.query {
                    if !old.is_empty() {
                        pieces.push(old.clone());
                    }
                }
                if !pieces.is_empty() {
                    u.query = Some(pieces.join("&"));
                }
            }
        }
    }
    if let (Some(sel), Some(is)) = (&b.ident_sel, &doc.identities) {
        if !is.is_empty() {
            let i = &is[crate::runner::pick(*sel, is.len())];
            if let Some(v) = &i.user {
                c.user = v.clone();
            }
            if let Some(v) = &i.group {
                if !c.groups.contains(v) {
                    c.groups.push(v.clone());
                }
            }
            if let Some(v) = &i.exe {
                // (half of the callers bound to a rule that states U+FFFD run the non-UTF-8 path with the same lossy image)
                c.exe = if v == EXE_LOSSY && sel % 2 == 1 { EXE_RAW.to_string() } else { v.clone() };
            }
            if let Some(v) = &i.proc_name {
                c.proc_name = v.clone();
            }
        }
    }
    (u, c)
}

/// names are distinct by construction (i-th entry gets the i-th pool name) except that each entry
/// keeps its randomly drawn name with a small probability, so duplicate names stay a minority class
fn mostly_distinct<T: std::fmt::Debug + Clone + 'static>(
    s: impl Strategy<Value = T> + 'static,
    pool: &'static [&'static str],
    max: usize,
    set_name: fn(&mut T, String),
) -> impl Strategy<Value = Vec<T>> {
    prop::collection::vec((s, prop::bool::weighted(0.06)), 0..=max).prop_map(move |v| {
        v.into_iter()
            .enumerate()
            .map(|(i, (mut t, keep_random))| {
                if !keep_random {
                    set_name(&mut t, pool[i % pool.len()].to_string());
                }
                t
            })
            .collect()
    })
}

pub fn gdoc() -> impl Strategy<Value = GDoc> {
    (
        mode_text(),
        default_access_text(),
        prop::bool::weighted(0.95),
        maybe_section(mostly_distinct(gpriv(), PRIV_NAMES, 4, |p, n| p.name = n)),
        maybe_section(mostly_distinct(grole(), ROLE_NAMES, 3, |r, n| r.name = n)),
        maybe_section(mostly_distinct(gident(), IDENT_NAMES, 4, |i, n| i.name = n)),
        maybe_section(prop::collection::vec(gassign(), 0..4)),
        prop::collection::vec((any::<u16>(), any::<u16>(), any::<u16>()), 0..4),
    )
        .prop_map(assemble_doc)
}

pub type DocParts = (String, String, bool, Option<Vec<GPriv>>, Option<Vec<GRole>>, Option<Vec<GIdent>>, Option<Vec<GAssign>>, Vec<(u16, u16, u16)>);

pub fn assemble_doc((mode, default_access, rules_present, privileges, mut roles, identities, mut assignments, chains): DocParts) -> GDoc {
        // wire up complete chains privilege -> role -> assignment -> identity so that grants are frequent
        if let (Some(ps), Some(rs), Some(is), Some(asg)) = (&privileges, &mut roles, &identities, &mut assignments) {
            if !ps.is_empty() && !rs.is_empty() && !is.is_empty() {
                for (a, b, c) in chains {
                    let p = &ps[crate::runner::pick(a, ps.len())];
                    let ri = crate::runner::pick(b, rs.len());
                    let i = &is[crate::runner::pick(c, is.len())];
                    if !rs[ri].privileges.contains(&p.name) {
                        rs[ri].privileges.push(p.name.clone());
                    }
                    let rname = rs[ri].name.clone();
                    // mostly a NEW assignment (several assignments may reach one privilege, through the same
                    // role or through different roles); sometimes merged into an existing one
                    let merge = (a ^ b ^ c) % 4 == 0;
                    match asg.iter_mut().find(|x| x.role == rname && merge) {
                        Some(x) => {
                            if !x.identities.contains(&i.name) {
                                x.identities.push(i.name.clone());
                            }
                        }
                        None => {
                            let at = crate::runner::pick(a.rotate_left(3), asg.len() + 1);
                            asg.insert(at, GAssign { role: rname, identities: vec![i.name.clone()] })
                        }
                    }
                }
            }
        }
        GDoc {
            mode,
            default_access,
            id: String::new(),
            rules_present,
            privileges,
            roles,
            identities,
            assignments,
        }
        .with_content_id()
}

pub fn gclaims() -> impl Strategy<Value = GClaims> {
    (0usize..USERS.len(), prop::collection::vec(sel(GROUPS), 0..3), 0usize..PROCS.len(), any::<bool>(), prop::bool::weighted(0.85)).prop_map(
        |(u, groups, p, elevated, proc_consistent)| {
            let exe = if !proc_consistent && groups.len() == 2 { EXE_RAW.to_string() } else { EXES[p].to_string() };
            let proc_name = if proc_consistent { PROCS[p].to_string() } else { PROCS[(p + 1) % PROCS.len()].to_string() };
            GClaims {
                uid: if USERS[u] == "root" { 0 } else { 1000 + u as u64 },
                user: USERS[u].to_string(),
                groups,
                cmdline: format!("{} --opt", exe),
                proc_name,
                exe,
                elevated,
            }
        },
    )
}

/// A request target in origin form: generated path + query text, plus the pairs it was built from.
#[derive(Clone, Debug, Serialize, Deserialize, Hash, PartialEq, Eq)]
pub struct GUrl {
    pub path: String,
    /// None = no '?' at all
    pub query: Option<String>,
}

impl GUrl {
    pub fn text(&self) -> String {
        match &self.query {
            Some(q) => format!("{}?{}", self.path, q),
            None => self.path.clone(),
        }
    }
}

const SUFFIXES: &[&str] = &["", "", "", "/", "/x", "x", "/..", "/../a", "/a..b", "/%2e%2e/", "/%41", "/compute?", ";v=1", "/a-path-segment-that-is-longer-than-the-usual-ones/0123456789/abcdefghijklmnopqrstuvwxyz"];

fn query_piece() -> impl Strategy<Value = String> {
    prop_oneof![
        8 => (sel(QKEYS), case_mask(), sel(QVALS), case_mask()).prop_map(|(k, km, v, vm)| format!("{}={}", flip_case(&k, km), flip_case(&v, vm))),
        2 => (sel(QKEYS), case_mask()).prop_map(|(k, km)| flip_case(&k, km)),          // valueless
        1 => sel(QVALS).prop_map(|v| format!("={}", v)),                               // empty key
        1 => Just(String::new()),                                                      // "&&"
        1 => (sel(QKEYS), sel(QVALS)).prop_map(|(k, v)| format!("{}=={}", k, v)),      // '=' inside the value
    ]
}

pub fn gurl() -> impl Strategy<Value = GUrl> {
    (
        sel(PATHS),
        case_mask(),
        0usize..SUFFIXES.len(),
        prop::option::weighted(0.7, prop::collection::vec(query_piece(), 0..5)),
    )
        .prop_map(|(p, pm, sfx, q)| {
            let mut path = flip_case(&p, pm);
            let suffix = SUFFIXES[sfx];
            // a '?' inside the suffix pool entry is only a marker for "empty query follows"
            let suffix_clean = suffix.trim_end_matches('?');
            if !(path.ends_with('/') && suffix_clean.starts_with('/')) {
                path.push_str(suffix_clean);
            } else {
                path.push_str(&suffix_clean[1..]);
            }
            let query = match q {
                Some(v) => Some(v.join("&")),
                None => {
                    if suffix.ends_with('?') {
                        Some(String::new())
                    } else {
                        None
                    }
                }
            };
            GUrl { path, query }
        })
}

/// URL without traversal sequences (for checks where the 404 short-circuit would hide the rest).
pub fn gurl_no_traversal() -> impl Strategy<Value = GUrl> {
    gurl().prop_map(|mut u| {
        while u.path.contains("..") {
            u.path = u.path.replace("..", ".");
        }
        u
    })
}

// ------------------------------------------------------------------------------------------------
// HTTP requests for the end-to-end rig

#[derive(Clone, Debug, Serialize, Deserialize, Hash, PartialEq, Eq)]
pub struct GReq {
    pub method: String,
    pub url: GUrl,
    pub bind: Bind,
    /// end-to-end headers (names unique case-insensitively unless a check adds duplicates itself)
    pub headers: Vec<(String, String)>,
    pub body: Vec<u8>,
    /// None = Content-Length framing (or no framing header at all when the body is empty and `bare_empty`)
    pub chunked: Option<Vec<usize>>,
    pub bare_empty: bool,
}

pub const REQ_METHODS: &[&str] = &["GET", "GET", "GET", "POST", "PUT", "DELETE", "PATCH", "HEAD", "OPTIONS", "GET", "GET", "POST", "PUT", "GET", "POST", "PUT", "DELETE", "get", "Patch", "m-search"];
pub const REQ_HNAMES: &[&str] = &["metadata", "x-ms-version", "content-type", "accept", "user-agent", "x-a", "x-ab", "x-ms-client-request-id", "if-match", "x-zz"];

pub fn req_header_value() -> impl Strategy<Value = String> {
    prop_oneof![4 => "[!-~]{1,12}", 2 => "[!-~][ -~]{0,10}[!-~]", 1 => Just("True".to_string()), 1 => Just("application/json; charset=utf-8".to_string())]
}

pub fn req_headers() -> impl Strategy<Value = Vec<(String, String)>> {
    prop::collection::vec((0usize..REQ_HNAMES.len(), case_mask(), req_header_value()), 0..6).prop_map(|v| {
        let mut seen = std::collections::BTreeSet::new();
        let mut out = Vec::new();
        for (i, m, val) in v {
            if seen.insert(i) {
                out.push((flip_case(REQ_HNAMES[i], m), val));
            }
        }
        out
    })
}

pub fn small_body() -> impl Strategy<Value = Vec<u8>> {
    prop_oneof![
        5 => Just(Vec::new()),
        4 => prop::collection::vec(any::<u8>(), 1..64),
        1 => prop::collection::vec(any::<u8>(), 200..2000),
    ]
}

pub fn greq_with(url: impl Strategy<Value = GUrl>) -> impl Strategy<Value = GReq> {
    (sel(REQ_METHODS), url, bind(), req_headers(), small_body(), prop::option::weighted(0.25, prop::collection::vec(1usize..700, 1..4)), any::<bool>()).prop_map(
        |(method, url, bind, headers, mut body, chunked, bare_empty)| {
            if method == "GET" || method == "HEAD" || method == "OPTIONS" || method == "DELETE" {
                // bodies on these are legal but unusual; keep them rare
                if body.len() > 8 {
                    body.clear();
                }
            }
            GReq { method, url, bind, headers, body, chunked, bare_empty }
        },
    )
}

pub fn greq() -> impl Strategy<Value = GReq> {
    greq_with(gurl())
}

impl GReq {
    /// the bytes the raw client writes
    pub fn wire(&self, target: &str, extra_headers: &[(String, Vec<u8>)]) -> Vec<u8> {
        let mut hs: Vec<(String, Vec<u8>)> = vec![("Host".to_string(), b"168.63.129.16".to_vec())];
        for (n, v) in &self.headers {
            hs.push((n.clone(), v.as_bytes().to_vec()));
        }
        for (n, v) in extra_headers {
            hs.push((n.clone(), v.clone()));
        }
        let mut body_wire = Vec::new();
        match &self.chunked {
            Some(sizes) if !self.body.is_empty() => {
                hs.push(("Transfer-Encoding".into(), b"chunked".to_vec()));
                body_wire = crate::rawhttp::encode_chunked(&self.body, sizes);
            }
            _ => {
                if !(self.body.is_empty() && self.bare_empty) {
                    hs.push(("Content-Length".into(), self.body.len().to_string().into_bytes()));
                }
                body_wire.extend_from_slice(&self.body);
            }
        }
        let mut out = crate::rawhttp::request_head(&self.method, target, &hs);
        out.extend_from_slice(&body_wire);
        out
    }
}


// ------------------------------------------------------------------------------------------------
// word-addressed construction (coverage-guided fuzzing, see `words`): every component of a document
// is drawn from the SAME strategy as above, selected by one 64-bit word of the fuzz input, so that
// libFuzzer's byte mutations re-draw single components and splice components between corpus entries.

fn section_from_words<T>(w: &mut crate::words::Words, max: u64, mut elem: impl FnMut(u64) -> T, pool: &'static [&'static str], set_name: fn(&mut T, String)) -> Option<Vec<T>> {
    let h = w.next();
    if h % 25 == 0 {
        return None;
    }
    let n = (h >> 8) % (max + 1);
    Some(
        (0..n as usize)
            .map(|i| {
                let word = w.next();
                let mut t = elem(word);
                if (word >> 58) != 0 {
                    set_name(&mut t, pool[i % pool.len()].to_string());
                }
                t
            })
            .collect(),
    )
}

pub fn gdoc_from_words(w: &mut crate::words::Words) -> GDoc {
    use crate::words::draw;
    let h = w.next();
    let mode = draw(&mode_text(), h);
    let default_access = draw(&default_access_text(), h.rotate_left(17));
    let rules_present = (h >> 40) % 20 != 0;
    let privileges = section_from_words(w, 4, |x| draw(&gpriv(), x), PRIV_NAMES, |p, n| p.name = n);
    let roles = section_from_words(w, 3, |x| draw(&grole(), x), ROLE_NAMES, |r, n| r.name = n);
    let identities = section_from_words(w, 4, |x| draw(&gident(), x), IDENT_NAMES, |i, n| i.name = n);
    let assignments = {
        let h = w.next();
        if h % 25 == 0 {
            None
        } else {
            Some((0..((h >> 8) % 4) as usize).map(|_| draw(&gassign(), w.next())).collect())
        }
    };
    let c = w.next();
    let chains: Vec<(u16, u16, u16)> = (0..(c % 4) as usize)
        .map(|_| {
            let x = w.next();
            (x as u16, (x >> 16) as u16, (x >> 32) as u16)
        })
        .collect();
    assemble_doc((mode, default_access, rules_present, privileges, roles, identities, assignments, chains))
}
