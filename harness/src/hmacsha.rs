//! SHA-256 (FIPS 180-4) and HMAC (RFC 2104), written out; used only by oracles.
//! `self_test()` checks RFC 4231 / FIPS vectors and is called by every engine at start-up.

const K: [u32; 64] = [
    0x428a2f98, 0x71374491, 0xb5c0fbcf, 0xe9b5dba5, 0x3956c25b, 0x59f111f1, 0x923f82a4, 0xab1c5ed5, 0xd807aa98, 0x12835b01, 0x243185be, 0x550c7dc3,
    0x72be5d74, 0x80deb1fe, 0x9bdc06a7, 0xc19bf174, 0xe49b69c1, 0xefbe4786, 0x0fc19dc6, 0x240ca1cc, 0x2de92c6f, 0x4a7484aa, 0x5cb0a9dc, 0x76f988da,
    0x983e5152, 0xa831c66d, 0xb00327c8, 0xbf597fc7, 0xc6e00bf3, 0xd5a79147, 0x06ca6351, 0x14292967, 0x27b70a85, 0x2e1b2138, 0x4d2c6dfc, 0x53380d13,
    0x650a7354, 0x766a0abb, 0x81c2c92e, 0x92722c85, 0xa2bfe8a1, 0xa81a664b, 0xc24b8b70, 0xc76c51a3, 0xd192e819, 0xd6990624, 0xf40e3585, 0x106aa070,
    0x19a4c116, 0x1e376c08, 0x2748774c, 0x34b0bcb5, 0x391c0cb3, 0x4ed8aa4a, 0x5b9cca4f, 0x682e6ff3, 0x748f82ee, 0x78a5636f, 0x84c87814, 0x8cc70208,
    0x90befffa, 0xa4506ceb, 0xbef9a3f7, 0xc67178f2,
];

pub fn sha256(data: &[u8]) -> [u8; 32] {
    let mut h: [u32; 8] = [0x6a09e667, 0xbb67ae85, 0x3c6ef372, 0xa54ff53a, 0x510e527f, 0x9b05688c, 0x1f83d9ab, 0x5be0cd19];
    let mut msg = data.to_vec();
    let bitlen = (data.len() as u64).wrapping_mul(8);
    msg.push(0x80);
    while msg.len() % 64 != 56 {
        msg.push(0);
    }
    msg.extend_from_slice(&bitlen.to_be_bytes());
    for block in msg.chunks(64) {
        let mut w = [0u32; 64];
        for i in 0..16 {
            w[i] = u32::from_be_bytes([block[4 * i], block[4 * i + 1], block[4 * i + 2], block[4 * i + 3]]);
        }
        for i in 16..64 {
            let s0 = w[i - 15].rotate_right(7) ^ w[i - 15].rotate_right(18) ^ (w[i - 15] >> 3);
            let s1 = w[i - 2].rotate_right(17) ^ w[i - 2].rotate_right(19) ^ (w[i - 2] >> 10);
            w[i] = w[i - 16].wrapping_add(s0).wrapping_add(w[i - 7]).wrapping_add(s1);
        }
        let (mut a, mut b, mut c, mut d, mut e, mut f, mut g, mut hh) = (h[0], h[1], h[2], h[3], h[4], h[5], h[6], h[7]);
        for i in 0..64 {
            let s1 = e.rotate_right(6) ^ e.rotate_right(11) ^ e.rotate_right(25);
            let ch = (e & f) ^ ((!e) & g);
            let t1 = hh.wrapping_add(s1).wrapping_add(ch).wrapping_add(K[i]).wrapping_add(w[i]);
            let s0 = a.rotate_right(2) ^ a.rotate_right(13) ^ a.rotate_right(22);
            let maj = (a & b) ^ (a & c) ^ (b & c);
            let t2 = s0.wrapping_add(maj);
            hh = g;
            g = f;
            f = e;
            e = d.wrapping_add(t1);
            d = c;
            c = b;
            b = a;
            a = t1.wrapping_add(t2);
        }
        h[0] = h[0].wrapping_add(a);
        h[1] = h[1].wrapping_add(b);
        h[2] = h[2].wrapping_add(c);
        h[3] = h[3].wrapping_add(d);
        h[4] = h[4].wrapping_add(e);
        h[5] = h[5].wrapping_add(f);
        h[6] = h[6].wrapping_add(g);
        h[7] = h[7].wrapping_add(hh);
    }
    let mut out = [0u8; 32];
    for i in 0..8 {
        out[4 * i..4 * i + 4].copy_from_slice(&h[i].to_be_bytes());
    }
    out
}

pub fn hmac_sha256(key: &[u8], data: &[u8]) -> [u8; 32] {
    let mut k = [0u8; 64];
    if key.len() > 64 {
        k[..32].copy_from_slice(&sha256(key));
    } else {
        k[..key.len()].copy_from_slice(key);
    }
    let mut inner = Vec::with_capacity(64 + data.len());
    inner.extend(k.iter().map(|b| b ^ 0x36));
    inner.extend_from_slice(data);
    let ih = sha256(&inner);
    let mut outer = Vec::with_capacity(96);
    outer.extend(k.iter().map(|b| b ^ 0x5c));
    outer.extend_from_slice(&ih);
    sha256(&outer)
}

pub fn hex_lower(b: &[u8]) -> String {
    const H: &[u8; 16] = b"0123456789abcdef";
    let mut s = String::with_capacity(b.len() * 2);
    for x in b {
        s.push(H[(x >> 4) as usize] as char);
        s.push(H[(x & 15) as usize] as char);
    }
    s
}

pub fn hex_decode(s: &str) -> Option<Vec<u8>> {
    let b = s.as_bytes();
    if b.len() % 2 != 0 {
        return None;
    }
    let v = |c: u8| -> Option<u8> {
        match c {
            b'0'..=b'9' => Some(c - b'0'),
            b'a'..=b'f' => Some(c - b'a' + 10),
            b'A'..=b'F' => Some(c - b'A' + 10),
            _ => None,
        }
    };
    let mut out = Vec::with_capacity(b.len() / 2);
    for p in b.chunks(2) {
        out.push(v(p[0])? << 4 | v(p[1])?);
    }
    Some(out)
}

/// MAC as the host would compute it: hex_lower(HMAC-SHA256(hex_decode(key), canonical string))
pub fn mac_hex(hex_key: &str, canon: &[u8]) -> Option<String> {
    Some(hex_lower(&hmac_sha256(&hex_decode(hex_key)?, canon)))
}

pub fn self_test() {
    assert_eq!(hex_lower(&sha256(b"abc")), "ba7816bf8f01cfea414140de5dae2223b00361a396177a9cb410ff61f20015ad");
    assert_eq!(hex_lower(&sha256(b"")), "e3b0c44298fc1c149afbf4c8996fb92427ae41e4649b934ca495991b7852b855");
    assert_eq!(
        hex_lower(&sha256(b"abcdbcdecdefdefgefghfghighijhijkijkljklmklmnlmnomnopnopq")),
        "248d6a61d20638b8e5c026930c3e6039a33ce45964ff2167f6ecedd419db06c1"
    );
    // RFC 4231 test cases 1, 2, 3, 6
    assert_eq!(hex_lower(&hmac_sha256(&[0x0b; 20], b"Hi There")), "b0344c61d8db38535ca8afceaf0bf12b881dc200c9833da726e9376c2e32cff7");
    assert_eq!(
        hex_lower(&hmac_sha256(b"Jefe", b"what do ya want for nothing?")),
        "5bdcc146bf60754e6a042426089575c75a003f089d2739839dec58b964ec3843"
    );
    assert_eq!(hex_lower(&hmac_sha256(&[0xaa; 20], &[0xdd; 50])), "773ea91e36800e46854db8ebd09181a72959098b3ef8c122d9635514ced565fe");
    assert_eq!(
        hex_lower(&hmac_sha256(&[0xaa; 131], b"Test Using Larger Than Block-Size Key - Hash Key First")),
        "60e431591ee0b67f0d8a26aacbf5b77f8e0bc6213728c5140546040f0ee37f54"
    );
}
