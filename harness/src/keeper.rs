//! Key-keeper rig: the real `KeyKeeper` (5 ms interval) against the reference secure-channel host
//! on 168.63.129.16:80 inside a private namespace; observed through the public getters only.

use crate::keyhost::{KeyHost, Step};
use crate::mockhost::Mock;
use crate::ns;
use azure_proxy_agent::key_keeper::KeyKeeper;
use azure_proxy_agent::redirector::verif_hooks;
use azure_proxy_agent::shared_state::SharedState;
use serde::Serialize;
use std::path::PathBuf;
use std::time::{Duration, Instant};

pub struct KeeperRig {
    pub rt: tokio::runtime::Runtime,
    pub mock: Mock,
    pub host: KeyHost,
    pub serial: std::cell::Cell<u64>,
}

pub struct Agent {
    pub shared: SharedState,
    pub key_dir: PathBuf,
    pub log_dir: PathBuf,
}

#[derive(Clone, Debug, PartialEq, Eq, Serialize)]
pub struct Snapshot {
    pub state: String,
    pub key_guid: Option<String>,
    pub key_value: Option<String>,
    pub rule_ids: [String; 3],
    pub rules: [serde_json::Value; 3],
}

pub fn normalise(v: serde_json::Value) -> serde_json::Value {
    match v {
        serde_json::Value::Array(a) => {
            let mut a: Vec<serde_json::Value> = a.into_iter().map(normalise).collect();
            if a.iter().all(|x| x.is_string()) {
                a.sort_by(|x, y| x.as_str().cmp(&y.as_str()));
            }
            serde_json::Value::Array(a)
        }
        serde_json::Value::Object(m) => serde_json::Value::Object(m.into_iter().map(|(k, v)| (k, normalise(v))).collect()),
        other => other,
    }
}

impl KeeperRig {
    pub fn start(seed: u64, with_loggers: bool) -> Result<KeeperRig, String> {
        ns::enter(&ns::Options::default())?;
        let mock = Mock::new();
        mock.listen("wireserver", "168.63.129.16:80")?;
        mock.listen("hostga", "168.63.129.16:32526")?;
        mock.listen("imds", "169.254.169.254:80")?;
        let host = KeyHost::new(seed);
        host.install(&mock);
        verif_hooks::activate();
        if with_loggers {
            // exactly what service::start_service configures
            use proxy_agent_shared::logger::{logger_manager, rolling_logger::RollingLogger};
            let log_folder = azure_proxy_agent::common::config::get_logs_dir();
            logger_manager::set_logger_level(azure_proxy_agent::common::config::get_file_log_level());
            let mut loggers = std::collections::HashMap::new();
            loggers.insert(
                azure_proxy_agent::common::logger::AGENT_LOGGER_KEY.to_string(),
                RollingLogger::create_new(log_folder.clone(), "ProxyAgent.log".to_string(), azure_proxy_agent::common::constants::MAX_LOG_FILE_SIZE, azure_proxy_agent::common::constants::MAX_LOG_FILE_COUNT as u16),
            );
            loggers.insert(
                azure_proxy_agent::proxy::proxy_connection::ConnectionLogger::CONNECTION_LOGGER_KEY.to_string(),
                RollingLogger::create_new(log_folder, "ProxyAgent.Connection.log".to_string(), azure_proxy_agent::common::constants::MAX_LOG_FILE_SIZE, azure_proxy_agent::common::constants::MAX_LOG_FILE_COUNT as u16),
            );
            logger_manager::set_loggers(loggers, azure_proxy_agent::common::logger::AGENT_LOGGER_KEY.to_string());
        }
        let rt = tokio::runtime::Builder::new_multi_thread().worker_threads(3).enable_all().thread_name("agent-rt").build().map_err(|e| e.to_string())?;
        Ok(KeeperRig { rt, mock, host, serial: std::cell::Cell::new(0) })
    }

    /// fresh host state, fresh shared state, fresh key/log directories; the key keeper is started
    pub fn start_agent(&self, reuse_dirs: Option<(&PathBuf, &PathBuf)>) -> Agent {
        let n = self.serial.get() + 1;
        self.serial.set(n);
        let (key_dir, log_dir) = match reuse_dirs {
            Some((k, l)) => (k.clone(), l.clone()),
            None => (PathBuf::from(format!("{}/agent/keys/k{}", ns::RUN_ROOT, n)), PathBuf::from(format!("{}/agent/logs/l{}", ns::RUN_ROOT, n))),
        };
        let _ = std::fs::create_dir_all(&log_dir);
        let _ = verif_hooks::take_policy_trace();
        let shared = self.rt.block_on(async { SharedState::start_all() });
        let keeper = KeyKeeper::new("http://168.63.129.16/".parse().unwrap(), key_dir.clone(), log_dir.clone(), Duration::from_millis(5), &shared);
        self.rt.spawn(async move { keeper.poll_secure_channel_status().await });
        Agent { shared, key_dir, log_dir }
    }

    /// the key and log directories the next `start_agent(None)` will use
    pub fn next_dirs(&self) -> (PathBuf, PathBuf) {
        let n = self.serial.get() + 1;
        (PathBuf::from(format!("{}/agent/keys/k{}", ns::RUN_ROOT, n)), PathBuf::from(format!("{}/agent/logs/l{}", ns::RUN_ROOT, n)))
    }

    pub fn stop_agent(&self, a: &Agent) {
        a.shared.cancel_cancellation_token();
        // let the task observe the cancellation before the next case starts polling the same host
        std::thread::sleep(Duration::from_millis(12));
    }

    /// Install `step` at the next poll boundary and wait until the host has answered `polls` status
    /// requests under it with no scripted fault left. Err = watchdog (inconclusive).
    pub fn run_step(&self, step: Step, polls: u64, timeout: Duration) -> Result<(), String> {
        let serial_before = self.host.with(|s| {
            s.pending = Some(step);
            s.step_serial
        });
        let deadline = Instant::now() + timeout;
        loop {
            let (serial, n, faults_left, quiet, failing) = self.host.with(|s| (s.step_serial, s.status_since_step, s.acquire_faults.len() + s.attest_faults.len(), s.quiet_polls, s.status_fault.is_some()));
            // a failing status step: `polls` failed status requests; otherwise `polls` complete polls that met no scripted fault
            if serial > serial_before && ((failing && n >= polls) || (!failing && quiet >= polls)) {
                return Ok(());
            }
            if Instant::now() > deadline {
                return Err(format!("step not stable within {:?}: applied={} status requests since step={} faults left={} quiet polls={}", timeout, serial > serial_before, n, faults_left, quiet));
            }
            std::thread::sleep(Duration::from_millis(2));
        }
    }

    pub fn snapshot(&self, a: &Agent) -> Snapshot {
        let ks = a.shared.get_key_keeper_shared_state();
        self.rt.block_on(async {
            let j = |r: Option<azure_proxy_agent::proxy::authorization_rules::ComputedAuthorizationItem>| match r {
                Some(x) => normalise(serde_json::to_value(&x).unwrap()),
                None => serde_json::Value::Null,
            };
            Snapshot {
                state: ks.get_current_secure_channel_state().await.unwrap_or_else(|_| "error".into()),
                key_guid: ks.get_current_key_guid().await.unwrap_or(None),
                key_value: ks.get_current_key_value().await.unwrap_or(None),
                rule_ids: [ks.get_wireserver_rule_id().await.unwrap_or_default(), ks.get_imds_rule_id().await.unwrap_or_default(), ks.get_hostga_rule_id().await.unwrap_or_default()],
                rules: [j(ks.get_wireserver_rules().await.unwrap_or(None)), j(ks.get_imds_rules().await.unwrap_or(None)), j(ks.get_hostga_rules().await.unwrap_or(None))],
            }
        })
    }
}
