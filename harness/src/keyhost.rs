//! Reference secure-channel host (DESIGN.md appendix A.3) on top of the mock listeners:
//! issues keys on acquire, latches on a *verifying* attestation, reports the latched guid in the
//! status document, serves the canned goal-state / shared-config / instance documents, and verifies
//! every signed request it receives against the key registered for the announced id.

use crate::hmacsha;
use crate::mockhost::{Mock, Recorded, ResponseSpec};
use crate::props::c05::verify_received;
use serde::{Deserialize, Serialize};
use std::collections::{BTreeMap, VecDeque};
use std::sync::{Arc, Mutex};

#[derive(Clone, Debug, Serialize, Deserialize, Hash, PartialEq, Eq)]
pub enum Fault {
    /// status code + body text + content type
    Status(u16, String, String),
    /// 200 with a body that is not JSON of the expected shape
    Garbage(String, String),
    /// 200, well-formed JSON that fails the agent's validation
    InvalidDoc,
    /// 200, well-formed JSON that fails the validation for another reason (0: version 2.0 without secureChannelEnabled but with a
    /// valid secureChannelState "Wireserver"; 1: the same with "Disabled"; 2: version 1.0 with secureChannelEnabled but without
    /// secureChannelState; 3: neither field). Each names rules and modes of its own, so accepting it would show.
    InvalidDocKind(u8),
    /// a refusal (any non-2xx code) whose body is a well-formed, VALID status document of its own (kind 0/1: version 1.0
    /// disabled / enabled, 2/3: version 2.0 disabled / enabled; each names rule sets of its own): a failed request all the same
    RefusedWithValidDoc(u16, u8),
    /// connection reset without an answer
    Reset,
    /// (attestation only) the host processes the request - it may latch the key - but the reply is lost
    ResetAfterCommit,
}

#[derive(Clone, Debug, Serialize, Deserialize, Hash, PartialEq, Eq)]
pub enum KeyShape {
    Good,
    /// well-formed key document whose `key` is not hex / has odd length (C12)
    NonHex,
    OddLength,
    /// well-formed key document whose `guid` is a relative path: into a folder that does not exist / that exists (the log folder)
    GuidPathNew,
    GuidPathExisting,
    /// well-formed key document whose `guid` is not a name at all: "" (0), "." (1), ".." (2)
    GuidSpecial(u8),
    /// a 768-bit key (192 hex digits): longer than one HMAC-SHA256 block, still a key
    Hex768,
    /// well-formed key document whose key is valid hex of another size: 512 bits / 128 bits
    Hex512,
    Hex128,
}

#[derive(Default)]
pub struct Counters {
    pub status_total: u64,
    pub status_ok: u64,
    pub acquire_total: u64,
    pub acquire_ok: u64,
    pub attest_total: u64,
    pub attest_ok: u64,
    pub signed_ok: u64,
}

pub struct HostState {
    pub seed: u64,
    pub key_counter: u64,
    pub issued: BTreeMap<String, String>,
    /// every key value ever delivered in a parseable key response (the taint set of C12)
    pub delivered: Vec<String>,
    pub latched: Option<String>,
    /// status document without keyGuid; None = no status configured (answers 503)
    pub doc: Option<serde_json::Value>,
    pub status_fault: Option<Fault>,
    pub acquire_faults: VecDeque<Fault>,
    pub attest_faults: VecDeque<Fault>,
    pub key_shape: KeyShape,
    pub counters: Counters,
    /// requests whose authorization header did not verify under the key registered for the announced id
    pub signature_failures: Vec<(String, String)>,
    pub calls: Vec<String>,
    /// a hook the rigs use to be called at the instant an attestation request arrives (C08)
    pub goalstate_override: Option<ResponseSpec>,
    /// status codes with which the next signed requests of the agent's own clients / relayed requests are refused (after their
    /// signature has been checked like any other)
    pub refuse_signed: VecDeque<u16>,
    pub instance_override: Option<ResponseSpec>,
    pub shared_config_override: Option<ResponseSpec>,
    pub telemetry_script: VecDeque<Fault>,
    pub telemetry_bodies: Vec<(Vec<u8>, bool)>,
    /// a step that takes effect at the next status request (= at a poll boundary of the key keeper)
    pub pending: Option<Step>,
    pub step_serial: u64,
    pub status_since_step: u64,
    /// scripted faults handed out so far / at the previous status request / polls completed without one
    pub faults_consumed: u64,
    pub consumed_at_last_status: u64,
    pub quiet_polls: u64,
    /// C08: the guest's key directory; when set, the host checks at the instant an attestation request
    /// ARRIVES that <guid>.key already exists there and holds exactly the issued guid and key
    pub guest_key_dir: Option<std::path::PathBuf>,
    pub attest_arrival_violations: Vec<String>,
    /// hand out the same not-yet-attested key again on every further key request (as the in-tree server mock does)
    pub reissue_pending: bool,
    pub pending_issue: Option<(String, String, u64)>,
}

/// What the host does from the next poll on.
#[derive(Clone, Debug, Default)]
pub struct Step {
    pub doc: Option<serde_json::Value>,
    pub keep_doc: bool,
    pub status_fault: Option<Fault>,
    pub acquire_faults: Vec<Fault>,
    pub attest_faults: Vec<Fault>,
    /// the host forgets the latched key (rotation): the next status names no key
    pub rotate: bool,
    /// with `rotate`: instead of forgetting its key the host now names a latched key this guest never stored (somebody else
    /// re-keyed the channel, or the guest's key directory was lost): the guest must obtain a key of its own again
    pub rotate_foreign: bool,
    pub key_shape: Option<KeyShape>,
}

#[derive(Clone)]
pub struct KeyHost {
    pub state: Arc<Mutex<HostState>>,
}

fn fault_response(f: &Fault) -> ResponseSpec {
    match f {
        Fault::Status(code, body, ct) => ResponseSpec::status(*code, body.as_bytes()).with_header("Content-Type", ct),
        Fault::Garbage(body, ct) => ResponseSpec::ok(body.as_bytes()).with_header("Content-Type", ct),
        Fault::InvalidDocKind(k) => {
            let rules = serde_json::json!({
                "imds": {"defaultAccess": "deny", "mode": "enforce", "id": "invalid-doc-imds-rules", "rules": {"privileges": [], "roles": [], "identities": [], "roleAssignments": []}},
                "wireserver": {"defaultAccess": "deny", "mode": "enforce", "id": "invalid-doc-ws-rules", "rules": {"privileges": [], "roles": [], "identities": [], "roleAssignments": []}},
            });
            let mut d = serde_json::json!({"authorizationScheme": "Azure-HMAC-SHA256", "keyDeliveryMethod": "http", "keyGuid": null, "requiredClaimsHeaderPairs": ["isRoot"], "authorizationRules": rules});
            match k % 4 {
                0 => {
                    d["version"] = "2.0".into();
                    d["secureChannelState"] = "Wireserver".into();
                }
                1 => {
                    d["version"] = "2.0".into();
                    d["secureChannelState"] = "Disabled".into();
                }
                2 => {
                    d["version"] = "1.0".into();
                    d["secureChannelEnabled"] = true.into();
                }
                _ => {
                    d["version"] = "2.0".into();
                }
            }
            ResponseSpec::ok(serde_json::to_string(&d).unwrap().as_bytes()).with_header("Content-Type", "application/json; charset=utf-8")
        }
        Fault::RefusedWithValidDoc(code, k) => {
            let rules = serde_json::json!({
                "imds": {"defaultAccess": "deny", "mode": "enforce", "id": "refused-doc-imds-rules", "rules": {"privileges": [], "roles": [], "identities": [], "roleAssignments": []}},
                "wireserver": {"defaultAccess": "allow", "mode": "audit", "id": "refused-doc-ws-rules", "rules": {"privileges": [], "roles": [], "identities": [], "roleAssignments": []}},
            });
            let mut d = serde_json::json!({"authorizationScheme": "Azure-HMAC-SHA256", "keyDeliveryMethod": "http", "keyGuid": null, "requiredClaimsHeaderPairs": ["isRoot"], "authorizationRules": rules});
            match k % 4 {
                0 => {
                    d["version"] = "1.0".into();
                    d["secureChannelState"] = "Disabled".into();
                }
                1 => {
                    d["version"] = "1.0".into();
                    d["secureChannelState"] = "WireServer".into();
                }
                2 => {
                    d["version"] = "2.0".into();
                    d["secureChannelEnabled"] = false.into();
                }
                _ => {
                    d["version"] = "2.0".into();
                    d["secureChannelEnabled"] = true.into();
                }
            }
            ResponseSpec::status(*code, serde_json::to_string(&d).unwrap().as_bytes()).with_header("Content-Type", "application/json; charset=utf-8")
        }
        Fault::InvalidDoc => ResponseSpec::ok(br#"{"authorizationScheme":"Azure-HMAC-SHA256","keyDeliveryMethod":"http","keyGuid":null,"requiredClaimsHeaderPairs":["isRoot"],"secureChannelState":"bogus-state","version":"1.0"}"#).with_header("Content-Type", "application/json; charset=utf-8"),
        Fault::Reset | Fault::ResetAfterCommit => {
            let mut r = ResponseSpec::ok(b"");
            r.reset = true;
            r
        }
    }
}

impl KeyHost {
    pub fn new(seed: u64) -> KeyHost {
        KeyHost {
            state: Arc::new(Mutex::new(HostState {
                seed,
                key_counter: 0,
                issued: BTreeMap::new(),
                delivered: Vec::new(),
                latched: None,
                doc: None,
                status_fault: None,
                acquire_faults: VecDeque::new(),
                attest_faults: VecDeque::new(),
                key_shape: KeyShape::Good,
                counters: Counters::default(),
                signature_failures: Vec::new(),
                calls: Vec::new(),
                goalstate_override: None,
                refuse_signed: VecDeque::new(),
                instance_override: None,
                shared_config_override: None,
                telemetry_script: VecDeque::new(),
                telemetry_bodies: Vec::new(),
                pending: None,
                step_serial: 0,
                status_since_step: 0,
                faults_consumed: 0,
                consumed_at_last_status: 0,
                quiet_polls: 0,
                guest_key_dir: None,
                attest_arrival_violations: Vec::new(),
                reissue_pending: false,
                pending_issue: None,
            })),
        }
    }

    /// install as the responder of `mock` (all listeners share it; routing is by listener name and path)
    pub fn install(&self, mock: &Mock) {
        let st = self.state.clone();
        mock.set_responder(Box::new(move |r: &Recorded| {
            let mut s = st.lock().unwrap();
            s.respond(r)
        }));
    }

    pub fn with<T>(&self, f: impl FnOnce(&mut HostState) -> T) -> T {
        f(&mut self.state.lock().unwrap())
    }
}

/// what the C10 rig's proxied client sends under the proxy-owned authorization name: a well-formed value naming key 0 with a MAC
/// no key produced. On a signed request the proxy's own line replaces it; next to the proxy's line it is a mis-paired line.
pub const CLIENT_AUTHZ_MARKER: &str = "Azure-HMAC-SHA256 00000000-aaaa-bbbb-cccc-000000000000 0000000000000000000000000000000000000000000000000000000000000000";

impl HostState {
    pub fn new_key(&mut self) -> (String, String) {
        self.key_counter += 1;
        let h = hmacsha::sha256(format!("key-{}-{}", self.seed, self.key_counter).as_bytes());
        let g = hmacsha::hex_lower(&hmacsha::sha256(format!("guid-{}-{}", self.seed, self.key_counter).as_bytes()));
        let guid = format!("{}-{}-{}-{}-{}", &g[0..8], &g[8..12], &g[12..16], &g[16..20], &g[20..32]);
        // every third key id is spelled in upper case (ids are opaque text; the host compares them as spelled)
        let guid = if self.key_counter % 3 == 2 { guid.to_uppercase() } else { guid };
        let guid = match self.key_shape {
            KeyShape::GuidPathNew => format!("../exported/{}", guid),
            KeyShape::GuidPathExisting => format!("../logs/{}", guid),
            KeyShape::GuidSpecial(k) => ["", ".", ".."][k as usize % 3].to_string(),
            _ => guid,
        };
        let key = match self.key_shape {
            KeyShape::Good | KeyShape::GuidPathNew | KeyShape::GuidPathExisting | KeyShape::GuidSpecial(_) => hmacsha::hex_lower(&h).to_uppercase(),
            KeyShape::NonHex => format!("ZZ{}", &hmacsha::hex_lower(&h).to_uppercase()[2..]),
            KeyShape::OddLength => hmacsha::hex_lower(&h).to_uppercase()[1..].to_string(),
            KeyShape::Hex512 => format!("{}{}", hmacsha::hex_lower(&h).to_uppercase(), hmacsha::hex_lower(&hmacsha::sha256(&h)).to_uppercase()),
            KeyShape::Hex128 => hmacsha::hex_lower(&h).to_uppercase()[..32].to_string(),
            KeyShape::Hex768 => hmacsha::hex_lower(&h).to_uppercase().repeat(3),
        };
        (guid, key)
    }

    fn check_signature(&mut self, r: &Recorded) -> Option<bool> {
        if r.head.get("x-ms-azure-host-authorization").is_none() {
            return None;
        }
        // a client's own value under the proxy-owned name that came through on a request the proxy did not sign (no key latched)
        let lines = r.head.get_all("x-ms-azure-host-authorization");
        if lines.len() == 1 && lines[0] == CLIENT_AUTHZ_MARKER.as_bytes() {
            return None;
        }
        let issued = self.issued.clone();
        match verify_received(r, &|g| issued.get(g).cloned(), true) {
            Ok(_) => {
                self.counters.signed_ok += 1;
                Some(true)
            }
            Err((sig, detail)) => {
                self.signature_failures.push((sig, format!("{} {}: {}", r.method, r.target, detail)));
                Some(false)
            }
        }
    }

    pub fn respond(&mut self, r: &Recorded) -> ResponseSpec {
        let json = "application/json; charset=utf-8";
        let path = r.target.split('?').next().unwrap_or("").to_string();
        self.calls.push(format!("{} {} {}", r.listener, r.method, r.target));
        if r.listener == "imds" {
            if self.check_signature(r).is_some() {
                if let Some(code) = self.refuse_signed.pop_front() {
                    return ResponseSpec::status(code, b"refused");
                }
            }
            if let Some(o) = &self.instance_override {
                return o.clone();
            }
            return ResponseSpec::ok(crate::canned::INSTANCE.as_bytes()).with_header("Content-Type", json);
        }
        if r.method == "GET" && path == "/secure-channel/status" {
            if let Some(step) = self.pending.take() {
                if !step.keep_doc {
                    self.doc = step.doc;
                }
                self.status_fault = step.status_fault;
                self.acquire_faults = step.acquire_faults.into_iter().collect();
                self.attest_faults = step.attest_faults.into_iter().collect();
                if step.rotate {
                    self.latched = None;
                    if step.rotate_foreign {
                        let (g, k) = self.new_key();
                        self.issued.insert(g.clone(), k);
                        self.latched = Some(g);
                    }
                }
                if let Some(k) = step.key_shape {
                    self.key_shape = k;
                }
                self.step_serial += 1;
                self.status_since_step = 0;
                self.quiet_polls = 0;
            } else if self.faults_consumed == self.consumed_at_last_status {
                // the poll that just ended met no scripted fault
                self.quiet_polls += 1;
            } else {
                self.quiet_polls = 0;
            }
            self.consumed_at_last_status = self.faults_consumed;
            self.status_since_step += 1;
            self.counters.status_total += 1;
            if let Some(f) = &self.status_fault {
                return fault_response(f);
            }
            return match &self.doc {
                None => ResponseSpec::status(503, b"no status configured"),
                Some(d) => {
                    let mut d = d.clone();
                    d["keyGuid"] = match &self.latched {
                        Some(g) => serde_json::Value::String(g.clone()),
                        None => serde_json::Value::Null,
                    };
                    self.counters.status_ok += 1;
                    ResponseSpec::ok(serde_json::to_string(&d).unwrap().as_bytes()).with_header("Content-Type", json)
                }
            };
        }
        if r.method == "POST" && path == "/secure-channel/key" {
            self.counters.acquire_total += 1;
            if let Some(f) = self.acquire_faults.pop_front() {
                self.faults_consumed += 1;
                return fault_response(&f);
            }
            let (guid, key, incarnation) = match (self.reissue_pending, self.pending_issue.clone()) {
                (true, Some(p)) => p,
                _ => {
                    let (g, k) = self.new_key();
                    (g, k, self.key_counter)
                }
            };
            self.pending_issue = Some((guid.clone(), key.clone(), incarnation));
            self.issued.insert(guid.clone(), key.clone());
            self.delivered.push(key.clone());
            self.counters.acquire_ok += 1;
            let body = serde_json::json!({"authorizationScheme": "Azure-HMAC-SHA256", "guid": guid, "incarnationId": incarnation, "issued": "2026-01-01T00:00:00Z", "key": key});
            return ResponseSpec::ok(serde_json::to_string(&body).unwrap().as_bytes()).with_header("Content-Type", json);
        }
        if r.method == "POST" && path.starts_with("/secure-channel/key/") && path.ends_with("/key-attestation") {
            self.counters.attest_total += 1;
            let mut lose_reply = false;
            if let Some(f) = self.attest_faults.pop_front() {
                self.faults_consumed += 1;
                if f == Fault::ResetAfterCommit {
                    lose_reply = true;
                } else {
                    return fault_response(&f);
                }
            }
            let guid = path["/secure-channel/key/".len()..path.len() - "/key-attestation".len()].to_string();
            if let Some(dir) = &self.guest_key_dir {
                let f = dir.join(format!("{}.key", guid));
                match std::fs::read(&f) {
                    Err(e) => self.attest_arrival_violations.push(format!("attestation of {} arrived but {} cannot be read: {}", guid, f.display(), e)),
                    Ok(bytes) => match serde_json::from_slice::<serde_json::Value>(&bytes) {
                        Err(e) => self.attest_arrival_violations.push(format!("attestation of {} arrived but {} is not complete JSON: {}", guid, f.display(), e)),
                        Ok(v) => {
                            if v["guid"].as_str() != Some(guid.as_str()) || v["key"].as_str().map(|k| k.to_string()) != self.issued.get(&guid).cloned() {
                                self.attest_arrival_violations.push(format!("attestation of {} arrived but {} does not hold the issued guid and key", guid, f.display()));
                            }
                        }
                    },
                }
            }
            let ok = self.check_signature(r) == Some(true) && r.head.get("x-ms-azure-host-authorization").map(|a| String::from_utf8_lossy(a).contains(&guid)).unwrap_or(false);
            if ok {
                self.latched = Some(guid);
                self.pending_issue = None;
                self.counters.attest_ok += 1;
                if lose_reply {
                    return fault_response(&Fault::Reset);
                }
                return ResponseSpec::ok(b"");
            }
            return ResponseSpec::status(403, b"attestation MAC does not verify");
        }
        if r.method == "GET" && r.target == "/machine?comp=goalstate" {
            if self.check_signature(r).is_some() {
                if let Some(code) = self.refuse_signed.pop_front() {
                    return ResponseSpec::status(code, b"refused");
                }
            }
            if let Some(o) = &self.goalstate_override {
                return o.clone();
            }
            let body = crate::canned::GOAL_STATE.replace("##ip##", "168.63.129.16").replace("##port##", "80");
            return ResponseSpec::ok(body.as_bytes()).with_header("Content-Type", "text/xml; charset=utf-8");
        }
        if r.method == "GET" && r.target.starts_with("/machine/") && r.target.contains("type=sharedConfig") {
            if self.check_signature(r).is_some() {
                if let Some(code) = self.refuse_signed.pop_front() {
                    return ResponseSpec::status(code, b"refused");
                }
            }
            if let Some(o) = &self.shared_config_override {
                return o.clone();
            }
            return ResponseSpec::ok(crate::canned::SHARED_CONFIG.as_bytes()).with_header("Content-Type", "text/xml; charset=utf-8");
        }
        if r.method == "POST" && r.target.to_lowercase() == "/machine/?comp=telemetrydata" {
            let fault = self.telemetry_script.pop_front();
            let accepted = fault.is_none();
            self.telemetry_bodies.push((r.body.clone(), accepted));
            return match fault {
                Some(f) => fault_response(&f),
                None => ResponseSpec::ok(b""),
            };
        }
        // anything else (relayed client traffic in the C12 rig): plain 200
        self.check_signature(r);
        ResponseSpec::ok(b"mock")
    }
}

/// The status document of one step (DESIGN.md A.3), as a generated value.
#[derive(Clone, Debug, Serialize, Deserialize, Hash, PartialEq, Eq)]
pub enum StatusDoc {
    V1 { state: String },
    V2 { enabled: bool, ws: Option<crate::gen::GDoc>, imds: Option<crate::gen::GDoc>, hostga: Option<crate::gen::GDoc>, rules_member: bool },
}

impl StatusDoc {
    pub fn to_json(&self) -> serde_json::Value {
        match self {
            StatusDoc::V1 { state } => serde_json::json!({
                "authorizationScheme": "Azure-HMAC-SHA256", "keyDeliveryMethod": "http", "keyGuid": null,
                "requiredClaimsHeaderPairs": ["isRoot"], "secureChannelState": state, "version": "1.0"}),
            StatusDoc::V2 { enabled, ws, imds, hostga, rules_member } => {
                let mut d = serde_json::json!({
                    "authorizationScheme": "Azure-HMAC-SHA256", "keyDeliveryMethod": "http", "keyGuid": null,
                    "requiredClaimsHeaderPairs": ["isRoot"], "secureChannelEnabled": enabled, "version": "2.0"});
                if *rules_member {
                    let mut rules = serde_json::Map::new();
                    if let Some(x) = imds {
                        rules.insert("imds".into(), x.to_json());
                    }
                    if let Some(x) = ws {
                        rules.insert("wireserver".into(), x.to_json());
                    }
                    if let Some(x) = hostga {
                        rules.insert("hostga".into(), x.to_json());
                    }
                    d["authorizationRules"] = serde_json::Value::Object(rules);
                }
                d
            }
        }
    }
}
