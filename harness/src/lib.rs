pub mod agent;
pub mod gen;
pub mod hmacsha;
pub mod props;
pub mod refmodel;
pub mod report;
pub mod runner;
