//! Mock metadata hosts on the real addresses (inside the worker's network namespace).
//! std listener threads; every byte is counted, every complete request recorded with its raw bytes;
//! the response is produced by a responder the rig installs.

use crate::rawhttp::{self, Framing, Head};
use std::collections::VecDeque;
use std::io::{Read, Write};
use std::net::{TcpListener, TcpStream};
use std::sync::atomic::{AtomicU64, Ordering};
use std::sync::{Arc, Condvar, Mutex};
use std::time::{Duration, Instant};

#[derive(Clone, Debug)]
pub struct Recorded {
    pub listener: String,
    pub conn_id: u64,
    pub seq_on_conn: u32,
    pub arrival: u64,
    pub head: Head,
    pub method: String,
    pub target: String,
    pub body: Vec<u8>,
    pub framing: Framing,
    /// raw bytes of the request (head + framed body) unless larger than 8 MiB (then head only)
    pub raw: Vec<u8>,
    pub received_at: Instant,
}

#[derive(Clone, Debug)]
pub enum RespFraming {
    Length,
    Chunked(Vec<usize>),
    Close,
    /// chunked with a trailer section after the last chunk (RFC 9112 7.1.2)
    ChunkedTrailers(Vec<usize>, Vec<(String, String)>),
    /// a Content-Length that is not the length of what follows (the host sends its body and closes)
    LengthDeclared(u64),
}

#[derive(Clone, Debug)]
pub struct ResponseSpec {
    pub status: u16,
    pub reason: String,
    pub headers: Vec<(String, Vec<u8>)>,
    pub body: Vec<u8>,
    pub framing: RespFraming,
    /// sizes of the successive writes (cycled); empty = one write
    pub pieces: Vec<usize>,
    pub pause_us: u64,
    /// close the connection without answering
    pub reset: bool,
    pub delay_ms: u64,
    /// write the last `tail_split` bytes of the response separately, after `pause_us`
    pub tail_split: usize,
    /// close the connection after this (completely framed) response; the rig adds `Connection: close` itself
    pub close_after: bool,
}

impl ResponseSpec {
    pub fn ok(body: &[u8]) -> ResponseSpec {
        ResponseSpec {
            status: 200,
            reason: "OK".into(),
            headers: vec![],
            body: body.to_vec(),
            framing: RespFraming::Length,
            pieces: vec![],
            pause_us: 0,
            reset: false,
            delay_ms: 0,
            tail_split: 0,
            close_after: false,
        }
    }
    pub fn status(status: u16, body: &[u8]) -> ResponseSpec {
        let mut r = ResponseSpec::ok(body);
        r.status = status;
        r.reason = "X".into();
        r
    }
    pub fn with_header(mut self, n: &str, v: &str) -> Self {
        self.headers.push((n.to_string(), v.as_bytes().to_vec()));
        self
    }
    pub fn wire(&self, request_method: &str) -> Vec<u8> {
        let mut out = Vec::new();
        out.extend_from_slice(format!("HTTP/1.1 {} {}\r\n", self.status, self.reason).as_bytes());
        for (n, v) in &self.headers {
            out.extend_from_slice(n.as_bytes());
            out.extend_from_slice(b": ");
            out.extend_from_slice(v);
            out.extend_from_slice(b"\r\n");
        }
        let bodyless = request_method.eq_ignore_ascii_case("HEAD") || self.status == 204 || self.status == 304 || (100..200).contains(&self.status);
        match &self.framing {
            RespFraming::Length => {
                if !(self.status == 204 || self.status == 304 || (100..200).contains(&self.status)) {
                    out.extend_from_slice(format!("Content-Length: {}\r\n", self.body.len()).as_bytes());
                }
                out.extend_from_slice(b"\r\n");
                if !bodyless {
                    out.extend_from_slice(&self.body);
                }
            }
            RespFraming::Chunked(sizes) => {
                if bodyless {
                    out.extend_from_slice(b"\r\n");
                } else {
                    out.extend_from_slice(b"Transfer-Encoding: chunked\r\n\r\n");
                    out.extend_from_slice(&rawhttp::encode_chunked(&self.body, sizes));
                }
            }
            RespFraming::ChunkedTrailers(sizes, trailers) => {
                if bodyless {
                    out.extend_from_slice(b"\r\n");
                } else {
                    out.extend_from_slice(format!("Transfer-Encoding: chunked\r\nTrailer: {}\r\n\r\n", trailers.iter().map(|(n, _)| n.as_str()).collect::<Vec<_>>().join(", ")).as_bytes());
                    let mut enc = rawhttp::encode_chunked(&self.body, sizes);
                    // "0\r\n\r\n" -> "0\r\n" + trailer fields + "\r\n"
                    enc.truncate(enc.len() - 2);
                    for (n, v) in trailers {
                        enc.extend_from_slice(format!("{}: {}\r\n", n, v).as_bytes());
                    }
                    enc.extend_from_slice(b"\r\n");
                    out.extend_from_slice(&enc);
                }
            }
            RespFraming::LengthDeclared(n) => {
                out.extend_from_slice(format!("Content-Length: {}\r\n\r\n", n).as_bytes());
                if !bodyless {
                    out.extend_from_slice(&self.body);
                }
            }
            RespFraming::Close => {
                out.extend_from_slice(b"Connection: close\r\n\r\n");
                if !bodyless {
                    out.extend_from_slice(&self.body);
                }
            }
        }
        out
    }
}

pub type Responder = Box<dyn FnMut(&Recorded) -> ResponseSpec + Send>;

pub struct Inner {
    pub requests: VecDeque<Recorded>,
    pub responder: Responder,
    pub open_conns: u64,
}

pub struct Mock {
    pub inner: Arc<(Mutex<Inner>, Condvar)>,
    pub bytes: Arc<AtomicU64>,
    pub conns: Arc<AtomicU64>,
    pub arrivals: Arc<AtomicU64>,
    pub per_listener_bytes: Arc<Mutex<std::collections::BTreeMap<String, u64>>>,
}

impl Mock {
    pub fn new() -> Mock {
        Mock {
            inner: Arc::new((
                Mutex::new(Inner {
                    requests: VecDeque::new(),
                    responder: Box::new(|_r| ResponseSpec::ok(b"mock")),
                    open_conns: 0,
                }),
                Condvar::new(),
            )),
            bytes: Arc::new(AtomicU64::new(0)),
            conns: Arc::new(AtomicU64::new(0)),
            arrivals: Arc::new(AtomicU64::new(0)),
            per_listener_bytes: Arc::new(Mutex::new(Default::default())),
        }
    }

    pub fn set_responder(&self, r: Responder) {
        self.inner.0.lock().unwrap().responder = r;
    }

    pub fn total_bytes(&self) -> u64 {
        self.bytes.load(Ordering::SeqCst)
    }

    pub fn bytes_by_listener(&self) -> std::collections::BTreeMap<String, u64> {
        self.per_listener_bytes.lock().unwrap().clone()
    }

    pub fn take_requests(&self) -> Vec<Recorded> {
        self.inner.0.lock().unwrap().requests.drain(..).collect()
    }

    /// wait until at least `n` requests are recorded (or the timeout passes), then take them all
    pub fn wait_requests(&self, n: usize, timeout: Duration) -> Vec<Recorded> {
        let deadline = Instant::now() + timeout;
        let (m, cv) = &*self.inner;
        let mut g = m.lock().unwrap();
        while g.requests.len() < n {
            let now = Instant::now();
            if now >= deadline {
                break;
            }
            g = cv.wait_timeout(g, deadline - now).unwrap().0;
        }
        g.requests.drain(..).collect()
    }

    /// start a listener; `name` tags its requests
    pub fn listen(&self, name: &str, addr: &str) -> Result<u16, String> {
        let l = TcpListener::bind(addr).map_err(|e| format!("mock bind {}: {}", addr, e))?;
        let port = l.local_addr().unwrap().port();
        let name = name.to_string();
        let inner = self.inner.clone();
        let bytes = self.bytes.clone();
        let conns = self.conns.clone();
        let arrivals = self.arrivals.clone();
        let plb = self.per_listener_bytes.clone();
        std::thread::Builder::new()
            .name(format!("mock-{}", name))
            .spawn(move || {
                for s in l.incoming() {
                    let s = match s {
                        Ok(s) => s,
                        Err(_) => continue,
                    };
                    let id = conns.fetch_add(1, Ordering::SeqCst);
                    let (name, inner, bytes, arrivals, plb) = (name.clone(), inner.clone(), bytes.clone(), arrivals.clone(), plb.clone());
                    let _ = std::thread::Builder::new().name(format!("mockconn-{}", id)).stack_size(256 * 1024).spawn(move || {
                        serve_conn(s, name, id, inner, bytes, arrivals, plb);
                    });
                }
            })
            .map_err(|e| e.to_string())?;
        Ok(port)
    }
}

fn serve_conn(
    mut s: TcpStream,
    name: String,
    id: u64,
    inner: Arc<(Mutex<Inner>, Condvar)>,
    bytes: Arc<AtomicU64>,
    arrivals: Arc<AtomicU64>,
    plb: Arc<Mutex<std::collections::BTreeMap<String, u64>>>,
) {
    let _ = s.set_nodelay(true);
    let _ = s.set_read_timeout(Some(Duration::from_secs(120)));
    let mut buf: Vec<u8> = Vec::new();
    let mut tmp = vec![0u8; 256 * 1024];
    let mut seq = 0u32;
    let mut read_more = |s: &mut TcpStream, buf: &mut Vec<u8>| -> bool {
        rawhttp::quickack(s);
        match s.read(&mut tmp) {
            Ok(0) => false,
            Ok(n) => {
                rawhttp::quickack(s);
                bytes.fetch_add(n as u64, Ordering::SeqCst);
                *plb.lock().unwrap().entry(name.clone()).or_insert(0) += n as u64;
                buf.extend_from_slice(&tmp[..n]);
                true
            }
            Err(_) => false,
        }
    };
    loop {
        let end = loop {
            if let Some(e) = rawhttp::head_end(&buf) {
                break e;
            }
            if !read_more(&mut s, &mut buf) {
                return;
            }
        };
        let head = match rawhttp::parse_head(&buf[..end]) {
            Ok(h) => h,
            Err(_) => return,
        };
        let framing = rawhttp::request_framing(&head);
        let (body, consumed) = match &framing {
            Framing::None | Framing::UntilClose => (Vec::new(), end),
            Framing::Length(n) => {
                while buf.len() < end + n {
                    if !read_more(&mut s, &mut buf) {
                        return;
                    }
                }
                (buf[end..end + n].to_vec(), end + n)
            }
            Framing::Chunked => loop {
                match rawhttp::decode_chunked(&buf[end..]) {
                    Ok(Some((b, used))) => break (b, end + used),
                    Ok(None) => {
                        if !read_more(&mut s, &mut buf) {
                            return;
                        }
                    }
                    Err(_) => return,
                }
            },
        };
        let raw = if consumed <= 8 * 1024 * 1024 { buf[..consumed].to_vec() } else { buf[..end].to_vec() };
        buf.drain(..consumed);
        let rec = Recorded {
            listener: name.clone(),
            conn_id: id,
            seq_on_conn: seq,
            arrival: arrivals.fetch_add(1, Ordering::SeqCst),
            method: head.start.0.clone(),
            target: head.start.1.clone(),
            head,
            body,
            framing,
            raw,
            received_at: Instant::now(),
        };
        seq += 1;
        let spec = {
            let (m, cv) = &*inner;
            let mut g = m.lock().unwrap();
            let spec = (g.responder)(&rec);
            g.requests.push_back(rec.clone());
            cv.notify_all();
            spec
        };
        if spec.delay_ms > 0 {
            std::thread::sleep(Duration::from_millis(spec.delay_ms));
        }
        if spec.reset {
            rawhttp::close_abortive(s);
            return;
        }
        let wire = spec.wire(&rec.method);
        let split = spec.tail_split.min(wire.len());
        if rawhttp::write_pieces(&mut s, &wire[..wire.len() - split], &spec.pieces, Duration::from_micros(spec.pause_us)).is_err() {
            return;
        }
        if split > 0 {
            let _ = s.flush();
            std::thread::sleep(Duration::from_micros(spec.pause_us.max(100)));
            if s.write_all(&wire[wire.len() - split..]).is_err() {
                return;
            }
        }
        let _ = s.flush();
        if matches!(spec.framing, RespFraming::Close | RespFraming::LengthDeclared(_)) || spec.close_after {
            let _ = s.shutdown(std::net::Shutdown::Both);
            return;
        }
    }
}
