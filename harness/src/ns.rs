//! Private network + mount namespace for one worker process (DESIGN.md 2.3).
//! Must be entered before the process starts any thread.

use std::ffi::CString;
use std::io::Write;
use std::os::unix::process::CommandExt;
use std::process::{Child, Command, Stdio};

pub const RUN_ROOT: &str = "/verif/run";
pub const OTHER_IP: &str = "10.99.0.1";
pub const OTHER_PORT: u16 = 8080;
pub const DEAD_IP: &str = "10.99.0.2";

fn cstr(s: &str) -> CString {
    CString::new(s).unwrap()
}

fn mount(src: &str, target: &str, fstype: Option<&str>, flags: libc::c_ulong, data: Option<&str>) -> Result<(), String> {
    let src_c = cstr(src);
    let tgt_c = cstr(target);
    let fs_c = fstype.map(cstr);
    let data_c = data.map(cstr);
    let rc = unsafe {
        libc::mount(
            src_c.as_ptr(),
            tgt_c.as_ptr(),
            fs_c.as_ref().map(|c| c.as_ptr()).unwrap_or(std::ptr::null()),
            flags,
            data_c.as_ref().map(|c| c.as_ptr() as *const libc::c_void).unwrap_or(std::ptr::null()),
        )
    };
    if rc != 0 {
        return Err(format!("mount {} on {}: {}", src, target, std::io::Error::last_os_error()));
    }
    Ok(())
}

fn sh(cmd: &str, args: &[&str]) -> Result<(), String> {
    let out = Command::new(cmd).args(args).stdin(Stdio::null()).output().map_err(|e| format!("{} {:?}: {}", cmd, args, e))?;
    if !out.status.success() {
        return Err(format!("{} {:?}: {}", cmd, args, String::from_utf8_lossy(&out.stderr)));
    }
    Ok(())
}

/// take one of the metadata hosts' addresses off the loopback device / put it back (inside the private namespace): while it is
/// away, connecting to it fails at once (no route), i.e. the host cannot be reached
pub fn set_host_address(addr: &str, present: bool) -> Result<(), String> {
    sh("ip", &["addr", if present { "add" } else { "del" }, &format!("{}/32", addr), "dev", "lo"])
}

/// users of the generated passwd: (name, uid, primary gid)
pub const PASSWD: &[(&str, u32, u32)] = &[
    ("root", 0, 0),
    ("alice", 1001, 100),
    ("bob", 1002, 100),
    ("Alice", 1003, 10),
    // 1004 is deliberately absent ("undefined")
    ("zo\u{eb}-\u{7528}\u{6237}-\u{1f980}", 1005, 100),
    ("\u{e9}\u{e9}\u{e9}\u{e9}\u{e9}\u{e9}\u{e9}\u{e9}\u{e9}\u{e9}\u{e9}\u{e9}\u{e9}\u{e9}\u{e9}\u{e9}", 1006, 100),
];
/// groups: (name, gid, members)
pub const GROUP: &[(&str, u32, &[&str])] = &[
    ("root", 0, &[]),
    ("wheel", 10, &["alice", "root"]),
    ("users", 100, &[]),
    ("Wheel", 11, &["bob"]),
    ("g1", 12, &["alice", "bob", "Alice"]),
];

/// what `uzers` will report for a uid under the generated passwd/group (name, groups)
pub fn user_of(uid: u64) -> (String, Vec<String>) {
    match PASSWD.iter().find(|(_, u, _)| *u as u64 == uid) {
        None => ("undefined".to_string(), vec![]),
        Some((name, _, gid)) => {
            let mut groups = Vec::new();
            for (g, id, members) in GROUP {
                if id == gid || members.contains(name) {
                    groups.push(g.to_string());
                }
            }
            (name.to_string(), groups)
        }
    }
}

pub struct Options {
    pub passwd: bool,
    pub console: bool,
    pub tmpfs_size: &'static str,
}

impl Default for Options {
    fn default() -> Self {
        Options { passwd: true, console: true, tmpfs_size: "3g" }
    }
}

/// Enter fresh namespaces; returns Err(text) if the sandbox does not allow it (=> inconclusive).
pub fn enter(opts: &Options) -> Result<(), String> {
    let rc = unsafe { libc::unshare(libc::CLONE_NEWNET | libc::CLONE_NEWNS) };
    if rc != 0 {
        return Err(format!("unshare: {}", std::io::Error::last_os_error()));
    }
    mount("none", "/", None, libc::MS_REC | libc::MS_PRIVATE, None)?;
    std::fs::create_dir_all(RUN_ROOT).map_err(|e| e.to_string())?;
    mount("tmpfs", RUN_ROOT, Some("tmpfs"), 0, Some(&format!("size={},mode=755", opts.tmpfs_size)))?;
    for d in ["agent/logs", "agent/events", "agent/keys", "bin", "etc", "tmp", "status"] {
        std::fs::create_dir_all(format!("{}/{}", RUN_ROOT, d)).map_err(|e| e.to_string())?;
    }
    // the agent's status folder is hard-coded under /var/log
    if std::path::Path::new("/var/log").exists() {
        mount("tmpfs", "/var/log", Some("tmpfs"), 0, Some("size=256m,mode=755"))?;
    }
    sh("ip", &["link", "set", "lo", "up"])?;
    for a in ["168.63.129.16/32", "169.254.169.254/32", "10.99.0.1/32"] {
        sh("ip", &["addr", "add", a, "dev", "lo"])?;
    }
    if opts.passwd {
        let mut p = String::new();
        for (n, u, g) in PASSWD {
            p.push_str(&format!("{}:x:{}:{}:{}:/nonexistent:/bin/false\n", n, u, g, n));
        }
        let mut gtxt = String::new();
        for (n, id, members) in GROUP {
            gtxt.push_str(&format!("{}:x:{}:{}\n", n, id, members.join(",")));
        }
        std::fs::write(format!("{}/etc/passwd", RUN_ROOT), p).map_err(|e| e.to_string())?;
        std::fs::write(format!("{}/etc/group", RUN_ROOT), gtxt).map_err(|e| e.to_string())?;
        mount(&format!("{}/etc/passwd", RUN_ROOT), "/etc/passwd", None, libc::MS_BIND, None)?;
        mount(&format!("{}/etc/group", RUN_ROOT), "/etc/group", None, libc::MS_BIND, None)?;
    }
    if opts.console {
        let f = format!("{}/console", RUN_ROOT);
        std::fs::write(&f, b"").map_err(|e| e.to_string())?;
        if std::path::Path::new("/dev/console").exists() {
            mount(&f, "/dev/console", None, libc::MS_BIND, None)?;
        }
    }
    Ok(())
}

/// Long-lived helper processes whose pid / executable path / command line stand for callers.
pub struct Helpers {
    pub procs: Vec<(String, String, String, Child)>, // (name, exe path, cmdline, child)
    /// current image of helpers that have replaced theirs with `exec` (index -> (name, exe path, cmdline))
    pub morphed: std::sync::Mutex<std::collections::BTreeMap<usize, (String, String, String)>>,
}

impl Helpers {
    /// `specs`: (file name of the executable, extra argv)
    pub fn spawn(specs: &[(String, Vec<String>)]) -> Result<Helpers, String> {
        let mut procs = Vec::new();
        for (name, args) in specs {
            let exe = format!("{}/bin/{}", RUN_ROOT, name);
            if !std::path::Path::new(&exe).exists() {
                // the harness's own do-nothing helper (accepts any argv); falls back to sleep(1)
                let mut src = std::env::current_exe().map_err(|e| e.to_string())?;
                src.set_file_name("vhelper");
                if src.exists() {
                    std::fs::copy(&src, &exe).map_err(|e| format!("copy {:?} -> {}: {}", src, exe, e))?;
                } else {
                    return Err(format!("helper binary {:?} not built", src));
                }
            }
            let mut cmd = Command::new(&exe);
            for a in args {
                cmd.arg(a);
            }
            cmd.stdin(Stdio::null()).stdout(Stdio::null()).stderr(Stdio::null());
            unsafe {
                cmd.pre_exec(|| {
                    libc::prctl(libc::PR_SET_PDEATHSIG, libc::SIGKILL);
                    Ok(())
                });
            }
            let child = cmd.spawn().map_err(|e| format!("spawn {}: {}", exe, e))?;
            let mut cmdline = exe.clone();
            for a in args {
                cmdline.push(' ');
                cmdline.push_str(a);
            }
            procs.push((name.clone(), exe, cmdline, child));
        }
        // give exec a moment so that /proc/<pid>/exe points at the helper
        std::thread::sleep(std::time::Duration::from_millis(30));
        Ok(Helpers { procs, morphed: Default::default() })
    }
    /// one more helper whose executable lives under a directory whose name is not valid UTF-8 (bytes 0xFF 0xFE): returns its
    /// index. Its path is written with U+E0FF / U+E0FE standing for those bytes (`gen::exe_os`).
    pub fn spawn_raw_path(&mut self) -> Result<usize, String> {
        use std::os::unix::ffi::OsStringExt;
        let mut src = std::env::current_exe().map_err(|e| e.to_string())?;
        src.set_file_name("vhelper");
        let mut dir: Vec<u8> = format!("{}/bin/d", RUN_ROOT).into_bytes();
        dir.extend_from_slice(&[0xFF, 0xFE]);
        let dir = std::path::PathBuf::from(std::ffi::OsString::from_vec(dir));
        std::fs::create_dir_all(&dir).map_err(|e| format!("mkdir {:?}: {}", dir, e))?;
        let exe = dir.join("tool");
        if !exe.exists() {
            std::fs::copy(&src, &exe).map_err(|e| format!("copy {:?} -> {:?}: {}", src, exe, e))?;
        }
        let mut cmd = Command::new(&exe);
        cmd.arg("3800").stdin(Stdio::null()).stdout(Stdio::null()).stderr(Stdio::null());
        unsafe {
            cmd.pre_exec(|| {
                libc::prctl(libc::PR_SET_PDEATHSIG, libc::SIGKILL);
                Ok(())
            });
        }
        let child = cmd.spawn().map_err(|e| format!("spawn {:?}: {}", exe, e))?;
        let shown = format!("{}/bin/d{}{}/tool", RUN_ROOT, '\u{E0FF}', '\u{E0FE}');
        self.procs.push(("tool".to_string(), shown.clone(), format!("{} 3800", shown), child));
        std::thread::sleep(std::time::Duration::from_millis(30));
        Ok(self.procs.len() - 1)
    }
    pub fn pid(&self, i: usize) -> u32 {
        self.procs[i].3.id()
    }
    /// (name, exe path, cmdline) of helper `i` as /proc shows it now
    pub fn ident(&self, i: usize) -> (String, String, String) {
        if let Some(m) = self.morphed.lock().unwrap().get(&i) {
            return m.clone();
        }
        (self.procs[i].0.clone(), self.procs[i].1.clone(), self.procs[i].2.clone())
    }
    /// one more helper that can replace its image: starts as `bin/<a>`, execs `bin/<b>` (and back) on `morph`
    pub fn spawn_chameleon(&mut self, a: &str, b: &str, args: &[String]) -> Result<usize, String> {
        let mut src = std::env::current_exe().map_err(|e| e.to_string())?;
        src.set_file_name("vhelper");
        for n in [a, b] {
            let exe = format!("{}/bin/{}", RUN_ROOT, n);
            if !std::path::Path::new(&exe).exists() {
                std::fs::copy(&src, &exe).map_err(|e| format!("copy {:?} -> {}: {}", src, exe, e))?;
            }
        }
        let exe = format!("{}/bin/{}", RUN_ROOT, a);
        let mut cmd = Command::new(&exe);
        cmd.args(args).env("VHELPER_ALT", format!("{}/bin/{}", RUN_ROOT, b)).stdin(Stdio::null()).stdout(Stdio::null()).stderr(Stdio::null());
        unsafe {
            cmd.pre_exec(|| {
                libc::prctl(libc::PR_SET_PDEATHSIG, libc::SIGKILL);
                let mut set: libc::sigset_t = std::mem::zeroed();
                libc::sigemptyset(&mut set);
                libc::sigaddset(&mut set, libc::SIGUSR1);
                libc::sigprocmask(libc::SIG_BLOCK, &set, std::ptr::null_mut());
                Ok(())
            });
        }
        let child = cmd.spawn().map_err(|e| format!("spawn {}: {}", exe, e))?;
        let cmdline = std::iter::once(exe.clone()).chain(args.iter().cloned()).collect::<Vec<_>>().join(" ");
        self.procs.push((a.to_string(), exe, cmdline, child));
        std::thread::sleep(std::time::Duration::from_millis(30));
        Ok(self.procs.len() - 1)
    }
    /// make helper `i` (a chameleon) exec its other image; returns once /proc/<pid>/exe shows it
    pub fn morph(&self, i: usize) -> Result<(), String> {
        let pid = self.pid(i);
        let link = format!("/proc/{}/exe", pid);
        let before = std::fs::read_link(&link).map_err(|e| e.to_string())?;
        unsafe { libc::kill(pid as i32, libc::SIGUSR1) };
        for _ in 0..20000 {
            std::thread::sleep(std::time::Duration::from_millis(1));
            if let Ok(now) = std::fs::read_link(&link) {
                if now != before {
                    let exe = now.display().to_string();
                    let name = now.file_name().map(|n| n.to_string_lossy().to_string()).unwrap_or_default();
                    let args: Vec<String> = std::fs::read(format!("/proc/{}/cmdline", pid)).unwrap_or_default().split(|b| *b == 0).filter(|s| !s.is_empty()).map(|s| String::from_utf8_lossy(s).to_string()).collect();
                    // the image is there; its argv follows within the exec itself
                    let cmdline = if args.is_empty() { exe.clone() } else { args.join(" ") };
                    self.morphed.lock().unwrap().insert(i, (name, exe, cmdline));
                    std::thread::sleep(std::time::Duration::from_millis(5));
                    return Ok(());
                }
            }
        }
        Err(format!("helper {} (pid {}) did not exec its other image", i, pid))
    }
}

impl Drop for Helpers {
    fn drop(&mut self) {
        for (_, _, _, c) in self.procs.iter_mut() {
            let _ = c.kill();
            let _ = c.wait();
        }
    }
}

/// Redirect this process's stdout and stderr to files (the agent prints to stdout; C12 reads them back).
pub fn redirect_stdio(stdout_path: &str, stderr_path: &str) {
    let _ = std::io::stdout().flush();
    for (path, fd) in [(stdout_path, 1), (stderr_path, 2)] {
        if let Ok(f) = std::fs::OpenOptions::new().create(true).append(true).open(path) {
            use std::os::unix::io::IntoRawFd;
            let nfd = f.into_raw_fd();
            unsafe {
                libc::dup2(nfd, fd);
                libc::close(nfd);
            }
        }
    }
}
