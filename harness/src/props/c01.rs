//! C01 — complete mediation, end to end (also carries the end-to-end half of C03).

use crate::gen::{self, GDoc, GReq};
use crate::refmodel::authz::{self, Dest, Verdict};
use crate::report::{h64, Stats};
use crate::rig::{DestSel, Rec, Rig};
use crate::runner::Outcome;
use proptest::prelude::*;
use serde::{Deserialize, Serialize};
use std::time::Duration;

#[derive(Clone, Debug, Serialize, Deserialize, Hash)]
pub struct Case {
    pub ws: Option<GDoc>,
    pub imds: Option<GDoc>,
    pub hostga: Option<GDoc>,
    pub rec: Option<Rec>,
    pub req: GReq,
    /// further requests on the SAME keep-alive connection (each judged on its own)
    #[serde(default)]
    pub more: Vec<GReq>,
    /// rule sets installed after the first request (the connection stays open): (wireserver, imds, hostga)
    #[serde(default)]
    pub later_rules: Option<(Option<GDoc>, Option<GDoc>, Option<GDoc>)>,
    /// a record of a NON-elevated caller whose elevation field holds this value instead of 0 (a kernel helper
    /// reporting "status unknown" returns a negative number): still not elevated
    #[serde(default)]
    pub admin_raw: Option<i32>,
    /// the caller is the process that can replace its image: it is seen once with its current image (a request on
    /// another connection), then execs the other program under the same pid, then the case runs
    #[serde(default)]
    pub morph: bool,
    /// the request target is written in absolute form, `http://<authority><origin form>`; the authority is the recorded
    /// destination (0) or ANOTHER endpoint (1..): what is authorised and where it goes stay those of the connection
    #[serde(default)]
    pub abs_form: Option<u8>,
    /// afterwards the attributed connection is reset and a connection WITHOUT a record is made from the same source port
    /// (made directly to the listener): it has no attribution of its own and nothing of it may be relayed
    #[serde(default)]
    pub then_direct_from_same_port: bool,
    #[serde(default)]
    pub host_down_prelude: bool,
}

pub fn dest_sel() -> impl Strategy<Value = DestSel> {
    prop_oneof![
        5 => Just(DestSel::WireServer), 4 => Just(DestSel::GaPlugin), 6 => Just(DestSel::Imds),
        2 => Just(DestSel::SelfProxy), 2 => Just(DestSel::Other), 1 => Just(DestSel::NearMissPort), 1 => Just(DestSel::Dead),
    ]
}

pub fn rec() -> impl Strategy<Value = Rec> {
    (prop_oneof![4 => 0u8..5, 1 => 5u8..13], prop_oneof![24 => 0u8..5, 1 => Just(crate::rig::RAW_PATH_CALLER)], prop::option::weighted(0.3, any::<bool>()), dest_sel()).prop_map(|(uid_sel, helper_sel, root_override, dest)| Rec {
        uid_sel,
        helper_sel,
        // the kernel sets is_root = (uid == 0); an independent flag is also generated: the proxy must follow the record
        is_root: root_override.unwrap_or(uid_sel == 0),
        dest,
    })
}

fn provision_or(url: impl Strategy<Value = gen::GUrl>) -> impl Strategy<Value = gen::GUrl> {
    prop_oneof![
        30 => url,
        1 => Just(gen::GUrl { path: "/provision".into(), query: None }),
        1 => Just(gen::GUrl { path: "/provision".into(), query: Some("x=1".into()) }),
        1 => Just(gen::GUrl { path: "/Provision".into(), query: None }),
    ]
}

pub fn strategy() -> impl Strategy<Value = Case> {
    (
        prop::option::weighted(0.8, gen::gdoc()),
        prop::option::weighted(0.8, gen::gdoc()),
        prop::option::weighted(0.6, gen::gdoc()),
        prop::option::weighted(0.85, rec()),
        gen::greq_with(provision_or(gen::gurl())),
        prop_oneof![3 => Just(vec![]), 2 => prop::collection::vec(gen::greq_with(provision_or(gen::gurl())), 1..4)],
        (prop::option::weighted(0.25, (prop::option::weighted(0.8, gen::gdoc()), prop::option::weighted(0.8, gen::gdoc()), prop::option::weighted(0.6, gen::gdoc()))), prop::option::weighted(0.12, prop::sample::select(vec![-1i32, -22, i32::MIN, 2, 256, i32::MAX])), prop::bool::weighted(0.12), prop::option::weighted(0.1, (any::<bool>(), gen::case_mask())), prop::option::weighted(0.15, 0u8..6), prop::bool::weighted(0.2), prop::bool::weighted(0.06)),
    )
        .prop_map(|(ws, imds, hostga, mut rec, mut req, more, (later_rules, admin_raw, morph, exempt_shape, abs_form, then_direct_from_same_port, host_down_prelude))| {
            // the two signature-exempt uploads take their own route through the proxy; they are mediated like everything else
            if let Some((telemetry, mask)) = exempt_shape {
                if telemetry {
                    req.method = "POST".into();
                    req.url = gen::GUrl { path: gen::flip_case("/machine/", mask), query: Some(gen::flip_case("comp=telemetrydata", mask.rotate_left(7))) };
                } else {
                    req.method = "PUT".into();
                    req.url = gen::GUrl { path: gen::flip_case("/vmAgentLog", mask), query: None };
                }
                req.bind = gen::Bind { priv_sel: None, ident_sel: None };
            }
            let morph = morph && rec.is_some();
            let (mut imds, mut later_rules) = (imds, later_rules);
            if morph {
                if let Some(r) = rec.as_mut() {
                    r.helper_sel = crate::rig::CHAMELEON;
                    // half of these cases: IMDS rules that grant everything to ONE of the two programs the process
                    // alternates between, so that the decision depends on the image it has now
                    if r.uid_sel % 2 == 0 {
                        r.dest = DestSel::Imds;
                        let exe = gen::EXES[if r.uid_sel % 4 == 0 { 0 } else { 1 }];
                        imds = Some(
                            GDoc {
                                mode: "enforce".into(),
                                default_access: "deny".into(),
                                id: String::new(),
                                rules_present: true,
                                privileges: Some(vec![gen::GPriv { name: "p0".into(), path: "/".into(), query: None }]),
                                roles: Some(vec![gen::GRole { name: "r0".into(), privileges: vec!["p0".into()] }]),
                                identities: Some(vec![gen::GIdent { name: "i0".into(), user: None, group: None, exe: Some(exe.to_string()), proc_name: None }]),
                                assignments: Some(vec![gen::GAssign { role: "r0".into(), identities: vec!["i0".into()] }]),
                            }
                            .with_content_id(),
                        );
                        later_rules = None;
                    }
                }
            }
            Case { ws, imds, hostga, rec, req, more, later_rules, admin_raw, morph, abs_form, then_direct_from_same_port, host_down_prelude }
        })
}

/// C03 end-to-end: non-elevated callers to the root-only endpoints, and the self destination
pub fn strategy_c03() -> impl Strategy<Value = Case> {
    strategy().prop_map(|mut c| {
        if let Some(r) = &mut c.rec {
            match r.dest {
                DestSel::WireServer | DestSel::GaPlugin => r.is_root = false,
                DestSel::SelfProxy => {}
                _ => {
                    r.dest = if r.uid_sel % 2 == 0 { DestSel::WireServer } else { DestSel::GaPlugin };
                    r.is_root = false;
                }
            }
        } else {
            c.rec = Some(Rec { uid_sel: 1, helper_sel: 0, is_root: false, dest: DestSel::SelfProxy });
        }
        let mut all: Vec<&mut GReq> = std::iter::once(&mut c.req).chain(c.more.iter_mut()).collect();
        for r in all.iter_mut() {
            while r.url.path.contains("..") {
                r.url.path = r.url.path.replace("..", ".");
            }
            if r.url.path.eq_ignore_ascii_case("/provision") {
                r.url.path = "/provisio".into();
            }
        }
        c
    })
}

pub const RULE: &str = "generator: 4% of the records belong to a caller whose executable path is not valid UTF-8 (its claims cannot be serialised: it may be refused outright, and what is refused is not relayed; a non-elevated one never reaches a root-only endpoint); 6% of the cases start with an elevated caller's connection to the destination while that host is unreachable (its address is taken off the loopback device), followed by a record-less connection from the same source port once the host is back (421, nothing relayed); after one attributed case in five the connection is reset and a connection WITHOUT a record is made from the same source port (421, nothing relayed); record uids include ids without a passwd entry that mean something elsewhere (0x3e4..0x3e8, 65533, 2^32-1, 1); rule set (or none) per endpoint installed through the public set_*_rules x attribution record (12% of the non-elevated records carry a negative elevation field, 'status unknown'; 15% of the request targets are written in absolute form, naming the recorded destination or another endpoint (the decision and the destination stay those of the connection); 10% of the requests are the two signature-exempt uploads (PUT /vmAgentLog, POST /machine/?comp=telemetrydata, any letter case); in 12% of the cases the caller is a process that has been seen by the agent before and has since replaced its image with exec - same pid, another executable and command line; 85%: uid from the generated passwd, pid of a live helper process, elevation flag = (uid == 0) or independent, original destination in {WireServer, HostGAPlugin, IMDS, the proxy itself, another local address, 168.63.129.16:81, an address nobody listens on}) or no record (direct connection) x request (method, URL incl. '..' / %2e%2e / '/provision', URL and caller mostly bound to the destination's rule set, header set, body as Content-Length or chunked). The raw client binds its source port, the record is placed in the stand-in audit map for that port, then it connects to the real listener. oracle: bytes counted at the mock hosts and the client status against the reference (record present AND no literal '..' in the path AND reference authorizer != Block). non-trivial: record present, destination's rule set present and not disabled, and the reference decision depends on the rule set (flipping the default access or the caller's elevation changes it) - or one of the refusal classes with a record present (traversal, self, non-elevated to a root-only endpoint, enforced denial). 40% of the cases carry 1-3 further requests on the same keep-alive connection and 25% of those replace the rule sets after the first request; every request is judged on its own against the rules in force when it is sent. distinct by hash of the case.";

pub fn dest_of(d: DestSel) -> Dest {
    let (ip, port) = d.addr();
    authz::classify(ip, port)
}

pub struct Observed {
    pub status: Option<u16>,
    pub delta: std::collections::BTreeMap<String, u64>,
    pub requests: Vec<crate::mockhost::Recorded>,
    pub client_error: Option<String>,
    pub response: Option<crate::rawhttp::RawResponse>,
}

/// send one request on a fresh connection and observe both sides
pub fn exchange(rig: &Rig, rec: Option<&Rec>, wire: &[u8], method: &str) -> Result<Observed, String> {
    exchange_paced(rig, rec, wire, method, None)
}

/// `pause`: the bytes from that offset on are written after that delay (a slow caller)
pub fn exchange_paced(rig: &Rig, rec: Option<&Rec>, wire: &[u8], method: &str, pause: Option<(usize, Duration)>) -> Result<Observed, String> {
    exchange_with_entry(rig, rec.map(|r| rig.entry_of(r)), wire, method, pause)
}

/// the same with the attribution record given as such (e.g. one whose elevation field is neither 0 nor 1)
pub fn exchange_with_entry(rig: &Rig, entry: Option<azure_proxy_agent::redirector::verif_hooks::Entry>, wire: &[u8], method: &str, pause: Option<(usize, Duration)>) -> Result<Observed, String> {
    let before = rig.mock.bytes_by_listener();
    let _ = rig.mock.take_requests();
    let mut conn = rig.open(entry, 0)?;
    let send_err = match pause {
        Some((at, d)) if at > 0 && at < wire.len() => {
            let e1 = conn.send(&wire[..at]).err();
            std::thread::sleep(d);
            e1.or(conn.send(&wire[at..]).err()).map(|e| e.to_string())
        }
        _ => conn.send(wire).err().map(|e| e.to_string()),
    };
    let resp = conn.read(method, Duration::from_secs(20));
    let (status, client_error, response) = match resp {
        Ok(r) => (Some(r.status), None, Some(r)),
        Err(e) => (None, Some(format!("{:?} (send error: {:?})", e, send_err)), None),
    };
    crate::rawhttp::close_abortive(conn.stream);
    let after = rig.mock.bytes_by_listener();
    let mut delta = std::collections::BTreeMap::new();
    for (k, v) in &after {
        let d = v - before.get(k).copied().unwrap_or(0);
        if d > 0 {
            delta.insert(k.clone(), d);
        }
    }
    let requests = rig.mock.take_requests();
    Ok(Observed { status, delta, requests, client_error, response })
}

/// a connection WITHOUT a record from source port `p` (which an attributed connection used just before): 421 and nothing relayed
fn direct_from_port(rig: &Rig, p: u16, before_it: &str, stats: &mut Stats) -> Option<Outcome> {
    std::thread::sleep(Duration::from_millis(2));
    let mut c2 = rig.open(None, p).ok()?;
    stats.class("connection:direct-from-the-port-of-an-earlier-attributed-connection");
    let before = rig.mock.bytes_by_listener();
    let _ = rig.mock.take_requests();
    let wire = crate::rawhttp::request_head("GET", "/after-port-reuse", &[("Host".into(), b"169.254.169.254".to_vec())]);
    let _ = c2.send(&wire);
    let resp = c2.read("GET", Duration::from_secs(20));
    let after = rig.mock.bytes_by_listener();
    let up: u64 = after.iter().map(|(k, v)| v - before.get(k).copied().unwrap_or(0)).sum();
    let status = resp.as_ref().ok().map(|r| r.status);
    crate::rawhttp::close_abortive(c2.stream);
    if up > 0 {
        return Some(Outcome::fail("mediation:bytes-sent-upstream-for-refused:direct-connection-from-a-reused-port", format!("{} bytes reached a host for a request on a connection without a record (source port {} served {} just before); client saw {:?}", up, p, before_it, status)));
    }
    if status != Some(421) {
        return Some(Outcome::fail("mediation:direct-connection-from-a-reused-port-not-refused-421", format!("client saw {:?} on source port {} (which served {} just before)", status, p, before_it)));
    }
    None
}

pub fn eval(rig: &Rig, case: &Case, stats: &mut Stats) -> Outcome {
    // prelude: an ELEVATED caller's connection towards the case's destination while that host cannot be reached, then a
    // record-less connection from the same source port once the host is back
    if let (true, Some(r)) = (case.host_down_prelude, case.rec.as_ref()) {
        let (ip, _) = r.dest.addr();
        let addr = format!("{}.{}.{}.{}", ip[0], ip[1], ip[2], ip[3]);
        if matches!(r.dest, DestSel::WireServer | DestSel::GaPlugin | DestSel::Imds) && crate::ns::set_host_address(&addr, false).is_ok() {
            stats.class("prelude:elevated-caller-while-the-host-is-unreachable,then-direct-from-its-port");
            let elevated = Rec { is_root: true, uid_sel: 0, ..*r };
            let mut port = None;
            if let Ok(mut c) = rig.open(Some(rig.entry_of(&elevated)), 0) {
                port = Some(c.port);
                let wire = crate::rawhttp::request_head("GET", "/while-the-host-is-down", &[("Host".into(), addr.clone().into_bytes())]);
                let _ = c.send(&wire);
                let _ = c.read("GET", Duration::from_secs(20));
                crate::rawhttp::close_abortive(c.stream);
            }
            if let Err(e) = crate::ns::set_host_address(&addr, true) {
                return Outcome::fail("rig:cannot-restore-host-address", e);
            }
            if let Some(p) = port {
                if let Some(o) = direct_from_port(rig, p, &format!("an elevated caller's connection to {:?} while that host was unreachable", r.dest), stats) {
                    return o;
                }
            }
        }
    }
    rig.set_rules(case.ws.as_ref(), case.imds.as_ref(), case.hostga.as_ref());
    rig.set_key(None);
    let mut rules: (Option<GDoc>, Option<GDoc>, Option<GDoc>) = (case.ws.clone(), case.imds.clone(), case.hostga.clone());
    if let (true, Some(r)) = (case.morph, case.rec.as_ref()) {
        if rig.helpers.procs.len() > crate::rig::CHAMELEON as usize {
            // let the agent see the process with its present image first, then change the image under the same pid
            let wire = crate::rawhttp::request_head("GET", "/seen-before", &[("Host".into(), b"h".to_vec())]);
            let _ = exchange(rig, Some(r), &wire, "GET");
            if let Err(e) = rig.helpers.morph(crate::rig::CHAMELEON as usize) {
                return Outcome::fail("rig:caller-did-not-change-its-image", e);
            }
            stats.class("caller:replaced-its-image-with-exec-since-it-was-last-seen");
        }
    }
    let mut entry = case.rec.as_ref().map(|r| rig.entry_of(r));
    if let (Some(e), Some(v), Some(false)) = (entry.as_mut(), case.admin_raw, case.rec.as_ref().map(|r| r.is_root)) {
        e.is_admin = v;
        stats.class("record:elevation-field-neither-0-nor-1");
    }
    let mut conn = match rig.open(entry, 0) {
        Ok(c) => Some(c),
        Err(e) => return Outcome::fail("rig:cannot-open-connection", e),
    };
    let all: Vec<&GReq> = std::iter::once(&case.req).chain(case.more.iter()).collect();
    if all.len() > 1 {
        stats.class("connection:keep-alive-with-several-requests");
    }
    for (i, req) in all.iter().enumerate() {
        if i == 1 {
            if let Some(l) = &case.later_rules {
                rules = l.clone();
                rig.set_rules(rules.0.as_ref(), rules.1.as_ref(), rules.2.as_ref());
                stats.class("connection:rules-replaced-while-open");
            }
        }
        if conn.is_none() {
            // the previous exchange may have left the connection unusable (refusal with an unread body): a fresh one, same caller
            let entry = case.rec.as_ref().map(|r| rig.entry_of(r));
            conn = match rig.open(entry, 0) {
                Ok(c) => Some(c),
                Err(e) => return Outcome::fail("rig:cannot-open-connection", e),
            };
        }
        let (o, reusable) = eval_one(rig, case, req, &rules, conn.as_mut().unwrap(), i, stats);
        if let Outcome::Fail { .. } = o {
            if let Some(c) = conn.take() {
                crate::rawhttp::close_abortive(c.stream);
            }
            return o;
        }
        if !reusable {
            if let Some(c) = conn.take() {
                crate::rawhttp::close_abortive(c.stream);
            }
        }
    }
    let last_port = conn.as_ref().map(|c| c.port);
    if let Some(c) = conn.take() {
        crate::rawhttp::close_abortive(c.stream);
    }
    if let (true, Some(p), true) = (case.then_direct_from_same_port, last_port, case.rec.is_some()) {
        if let Some(o) = direct_from_port(rig, p, &format!("an attributed connection {:?}", case.rec), stats) {
            return o;
        }
    }
    Outcome::Pass
}

/// one request on an open connection; returns the verdict and whether the connection can carry another request
fn eval_one(rig: &Rig, case: &Case, req: &GReq, rules: &(Option<GDoc>, Option<GDoc>, Option<GDoc>), conn: &mut crate::rig::Conn, index: usize, stats: &mut Stats) -> (Outcome, bool) {
    let dest_rules: Option<&GDoc> = match case.rec.map(|r| dest_of(r.dest)) {
        Some(Dest::WireServer) => rules.0.as_ref(),
        Some(Dest::GaPlugin) => rules.2.as_ref(),
        Some(Dest::Imds) => rules.1.as_ref(),
        _ => None,
    };
    let claims = case.rec.as_ref().map(|r| rig.claims_of(r));
    let url = match (dest_rules, &claims) {
        (Some(d), Some(c)) if req.url.path != "/provision" => gen::apply_bind(d, &req.url, c, &gen::Bind { priv_sel: req.bind.priv_sel, ident_sel: None }).0,
        _ => req.url.clone(),
    };
    let target = url.text();
    if target.parse::<hyper::Uri>().is_err() || target.contains(' ') {
        stats.class("target-not-a-valid-uri");
        return (Outcome::Pass, true);
    }
    let wire_target = match (case.abs_form, target.starts_with('/')) {
        (Some(a), true) => {
            let authority = match (a % 6, case.rec.as_ref()) {
                (0, Some(r)) => {
                    let (ip, port) = r.dest.addr();
                    format!("{}.{}.{}.{}:{}", ip[0], ip[1], ip[2], ip[3], port)
                }
                (1, _) => "169.254.169.254".to_string(),
                (2, _) => "168.63.129.16".to_string(),
                (3, _) => "168.63.129.16:32526".to_string(),
                (4, _) => "127.0.0.1:3080".to_string(),
                _ => "10.99.0.1:8080".to_string(),
            };
            stats.class(if a % 6 == 0 { "request:absolute-form(own-destination)" } else { "request:absolute-form(another-endpoint-named)" });
            format!("http://{}{}", authority, target)
        }
        _ => target.clone(),
    };
    let wire = req.wire(&wire_target, &[]);
    let before = rig.mock.bytes_by_listener();
    let _ = rig.mock.take_requests();
    let send_err = conn.send(&wire).err().map(|e| e.to_string());
    let resp = conn.read(&req.method, Duration::from_secs(20));
    let (status_opt, client_error) = match &resp {
        Ok(r) => (Some(r.status), None),
        Err(e) => (None, Some(format!("{:?} (send error: {:?})", e, send_err))),
    };
    let after = rig.mock.bytes_by_listener();
    let mut delta = std::collections::BTreeMap::new();
    for (k, v) in &after {
        let d = v - before.get(k).copied().unwrap_or(0);
        if d > 0 {
            delta.insert(k.clone(), d);
        }
    }
    let requests = rig.mock.take_requests();
    let obs = Observed { status: status_opt, delta, requests, client_error, response: resp.ok() };
    let reusable = req.body.is_empty() && obs.status.is_some();
    // a caller whose executable path is not valid UTF-8: its claims cannot be written down (the agent answers 421); whatever the
    // rules say about it, it is not a caller anybody authorised by name, and the statement's other direction - nothing is relayed
    // for a refused request - is what is judged
    if case.rec.map(|r| r.helper_sel as usize % rig.helpers.procs.len() == crate::rig::RAW_PATH_CALLER as usize).unwrap_or(false) && !case.morph {
        stats.class("caller:executable-path-not-valid-utf8");
        stats.class(&format!("caller:executable-path-not-valid-utf8:answered-{}", obs.status.map(|s| s.to_string()).unwrap_or_else(|| "nothing".into())));
        let total_up: u64 = obs.delta.values().sum();
        let refused = matches!(obs.status, Some(s) if (400..600).contains(&s));
        if refused && (total_up > 0 || !obs.requests.is_empty()) {
            return (Outcome::fail("mediation:bytes-sent-upstream-for-refused:caller-without-printable-claims", format!("status {:?} but {} bytes reached a host for {} {}", obs.status, total_up, req.method, target)), reusable);
        }
        if !refused && wire_target != "/provision" {
            // relayed: then it has to be a request the reference authorises for this caller's (unprintable) claims
            let dest_ok = case.rec.map(|r| !matches!(r.dest, DestSel::SelfProxy)).unwrap_or(false);
            let elevated_ok = case.rec.map(|r| r.is_root || !matches!(r.dest, DestSel::WireServer | DestSel::GaPlugin)).unwrap_or(false);
            if !dest_ok || !elevated_ok {
                return (Outcome::fail("mediation:bytes-sent-upstream-for-refused:caller-without-printable-claims", format!("status {:?}, {} bytes upstream for {} {} from a non-elevated / self-addressed caller {:?}", obs.status, total_up, req.method, target, case.rec)), reusable);
            }
        }
        return (Outcome::Pass, reusable);
    }
    let o = judge(rig, case, req, &target, &wire_target, dest_rules, &claims, &obs, index, stats);
    (o, reusable)
}

#[allow(clippy::too_many_arguments)]
fn judge(_rig: &Rig, case: &Case, req: &GReq, target: &str, wire_target: &str, dest_rules: Option<&GDoc>, claims: &Option<crate::gen::GClaims>, obs: &Observed, _index: usize, stats: &mut Stats) -> Outcome {
    let target = target.to_string();
    let total_up: u64 = obs.delta.values().sum();
    let (path, _) = crate::refmodel::rbac::split_target(&target);
    let traversal = path.contains("..");
    // the proxy's own status endpoint is the exact origin-form target "/provision" (an absolute-form spelling of it is an ordinary request)
    let provision = wire_target == "/provision";

    // ---- reference ----
    let mut expect_status: Vec<u16> = Vec::new();
    let mut may_relay = false;
    let mut must_relay = false;
    let mut underspec = false;
    let class;
    if traversal {
        expect_status.push(404);
        class = "refused:traversal";
    } else if provision {
        class = "local:provision";
    } else if case.rec.is_none() {
        expect_status.push(421);
        class = "refused:direct-connection";
    } else {
        let r = case.rec.as_ref().unwrap();
        let d = dest_of(r.dest);
        let (adm, us) = authz::authorize(d, claims.as_ref().unwrap(), &target, dest_rules);
        underspec = us;
        may_relay = adm.contains(&Verdict::Relay) || adm.contains(&Verdict::RelayWithAudit);
        must_relay = !adm.contains(&Verdict::Block);
        if adm.contains(&Verdict::Block) {
            expect_status.push(403);
        }
        class = if !may_relay {
            match d {
                Dest::SelfProxy => "refused:self-destination",
                Dest::WireServer | Dest::GaPlugin if !r.is_root => "refused:non-elevated-to-root-only",
                _ => "refused:enforced-denial",
            }
        } else if adm.contains(&Verdict::RelayWithAudit) {
            "relayed:audit-denial"
        } else if matches!(d, Dest::Other) {
            "relayed:other-destination"
        } else {
            "relayed:allowed"
        };
    }
    stats.class(class);
    if underspec {
        stats.underspec();
    }
    // non-triviality
    if let (Some(r), Some(c)) = (&case.rec, &claims) {
        let refusal = traversal || !may_relay;
        let mut depends = false;
        if let Some(d) = dest_rules {
            if crate::refmodel::rbac::mode_of(d) != "disabled" && !traversal && !provision {
                let mut flipped = d.clone();
                flipped.default_access = if d.default_access.eq_ignore_ascii_case("allow") { "deny".into() } else { "allow".into() };
                let a = authz::authorize(dest_of(r.dest), c, &target, Some(d)).0;
                let b = authz::authorize(dest_of(r.dest), c, &target, Some(&flipped)).0;
                let mut c2 = c.clone();
                c2.elevated = !c2.elevated;
                let e = authz::authorize(dest_of(r.dest), &c2, &target, Some(d)).0;
                depends = a != b || a != e;
            }
        }
        if (refusal && !provision) || depends {
            stats.nontrivial_hash(h64(case));
        }
    }
    stats.sample(|| {
        serde_json::json!({"record": case.rec, "claims": claims, "request": format!("{} {}", req.method, target), "rules_for_destination": dest_rules.map(|d| d.to_json()),
        "status": obs.status, "upstream_bytes": obs.delta, "class": class})
    });

    // ---- oracle ----
    if total_up > 0 && !may_relay {
        return Outcome::fail(
            format!("mediation:bytes-sent-upstream-for-{}", class),
            format!("{} bytes reached {:?} although the request must not be relayed ({}); request {} {} record {:?} claims {:?} rules {:?} status {:?}", total_up, obs.delta, class, req.method, target, case.rec, claims, dest_rules.map(|d| d.to_json()), obs.status),
        );
    }
    if total_up > 0 {
        // exactly the mock of the recorded destination
        let want = case.rec.and_then(|r| r.dest.listener());
        for l in obs.delta.keys() {
            if Some(l.as_str()) != want {
                return Outcome::fail("mediation:relayed-to-wrong-destination", format!("bytes at listener {} but the record names {:?}", l, case.rec.map(|r| r.dest)));
            }
        }
    }
    let status = match obs.status {
        Some(s) => s,
        None => return Outcome::fail("mediation:no-response-to-valid-request", format!("{} {} -> {:?}", req.method, target, obs.client_error)),
    };
    if !may_relay && !provision {
        if !expect_status.contains(&status) {
            return Outcome::fail(format!("mediation:wrong-refusal-status-for-{}", class), format!("status {} expected {:?}; request {} {} record {:?}", status, expect_status, req.method, target, case.rec));
        }
    } else if must_relay && !provision {
        let r = case.rec.as_ref().unwrap();
        match r.dest.listener() {
            Some(l) => {
                if obs.requests.len() != 1 || obs.requests[0].listener != l {
                    return Outcome::fail("mediation:authorized-request-not-relayed", format!("expected exactly one request at {}, got {:?}; status {}", l, obs.requests.iter().map(|q| (&q.listener, &q.method, &q.target)).collect::<Vec<_>>(), status));
                }
                if obs.requests[0].method != req.method || (obs.requests[0].target != target && obs.requests[0].target != wire_target) {
                    return Outcome::fail("mediation:relayed-request-line-differs", format!("sent {} {} host saw {} {}", req.method, target, obs.requests[0].method, obs.requests[0].target));
                }
                if status != 200 {
                    return Outcome::fail("mediation:authorized-request-status", format!("status {} for an authorised relayed request (mock answers 200)", status));
                }
            }
            None => {
                // nobody listens there: a gateway error, never a relay
                if !(500..600).contains(&status) {
                    return Outcome::fail("mediation:dead-destination-status", format!("status {}", status));
                }
            }
        }
    }
    Outcome::Pass
}
