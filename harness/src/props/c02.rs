//! C02 — RBAC decision equals the declared semantics (differential against `refmodel::rbac`
//! plus metamorphic relations on the agent alone).

use crate::agent;
use crate::gen::{self, GClaims, GDoc, GUrl};
use crate::refmodel::rbac::{self, Decision, QDup};
use crate::report::{h64, Stats};
use crate::runner::Outcome;
use proptest::prelude::*;
use serde::{Deserialize, Serialize};

#[derive(Clone, Debug, Serialize, Deserialize, Hash)]
pub struct Case {
    pub doc: GDoc,
    pub claims: GClaims,
    pub url: GUrl,
    pub bind: gen::Bind,
    pub perm_seed: u64,
    pub flip: u32,
}

pub fn strategy() -> impl Strategy<Value = Case> {
    (gen::gdoc(), gen::gclaims(), gen::gurl(), gen::bind(), any::<u64>(), any::<u32>()).prop_map(|(doc, claims, url, bind, perm_seed, flip)| Case {
        doc,
        claims,
        url,
        bind,
        perm_seed,
        flip,
    })
}

/// the same case space, addressed by the words of a fuzz input (see `crate::words`)
pub fn case_from_words(w: &mut crate::words::Words) -> Case {
    use crate::words::draw;
    Case { doc: gen::gdoc_from_words(w), claims: draw(&gen::gclaims(), w.next()), url: draw(&gen::gurl(), w.next()), bind: draw(&gen::bind(), w.next()), perm_seed: w.next(), flip: w.next() as u32 }
}

pub const RULE: &str = "generator: rule document (pools of 4 privilege / 3 role / 4 identity names with dangling and duplicate names, each section independently absent, paths and query keys/values with per-character case flips, mode and defaultAccess with case variants) x claims from the same pools (60% bound to one of the document's identities; executable paths include one that is not valid UTF-8, and rules that state its lossy image U+FFFD, which is a different path) x request URL (70% bound to one of the document's privileges: its path + suffix and a subset of its parameters; otherwise pool path + suffix, case flips, duplicate/valueless/empty/prefix-related query keys, %xx); the document goes through the agent's serde types and from_authorization_item, then is_allowed. non-trivial: mode != disabled, >= 2 privileges of which >= 1 matches the URL, >= 1 identity reachable through a role assignment, and the case lies outside the two under-specified classes (conflicting duplicate names, duplicate request query keys); distinct by hash of (document, claims, url).";

fn xorshift(s: &mut u64) -> u64 {
    let mut x = *s | 1;
    x ^= x << 13;
    x ^= x >> 7;
    x ^= x << 17;
    *s = x;
    x
}

/// shuffle, then restore the relative order of entries that share a name
fn permute_named<T: Clone>(items: &[T], name: impl Fn(&T) -> String, seed: &mut u64) -> Vec<T> {
    let n = items.len();
    let mut perm: Vec<usize> = (0..n).collect();
    for i in (1..n).rev() {
        let j = (xorshift(seed) % (i as u64 + 1)) as usize;
        perm.swap(i, j);
    }
    // positions (in the shuffled order) of each name, refilled with that name's original indices ascending
    let mut out_idx = perm.clone();
    let mut names: Vec<String> = items.iter().map(&name).collect();
    names.sort();
    names.dedup();
    for nm in names {
        let positions: Vec<usize> = (0..n).filter(|p| name(&items[perm[*p]]) == nm).collect();
        let mut originals: Vec<usize> = positions.iter().map(|p| perm[*p]).collect();
        originals.sort();
        for (p, o) in positions.iter().zip(originals) {
            out_idx[*p] = o;
        }
    }
    out_idx.into_iter().map(|i| items[i].clone()).collect()
}

pub fn permute_doc(doc: &GDoc, seed: u64) -> GDoc {
    let mut s = seed;
    let mut d = doc.clone();
    if let Some(v) = &doc.privileges {
        let mut pv = permute_named(v, |p| p.name.clone(), &mut s);
        for p in pv.iter_mut() {
            if let Some(q) = &mut p.query {
                let qq = q.clone();
                *q = permute_named(&qq, |(k, _)| k.clone(), &mut s);
            }
        }
        d.privileges = Some(pv);
    }
    if let Some(v) = &doc.roles {
        let mut rv = permute_named(v, |r| r.name.clone(), &mut s);
        for r in rv.iter_mut() {
            let pp = r.privileges.clone();
            r.privileges = permute_named(&pp, |x| x.clone(), &mut s);
        }
        d.roles = Some(rv);
    }
    if let Some(v) = &doc.identities {
        d.identities = Some(permute_named(v, |i| i.name.clone(), &mut s));
    }
    if let Some(v) = &doc.assignments {
        // assignments have no name: any order
        let mut av = permute_named(v, |a| format!("{:?}", a), &mut s);
        for a in av.iter_mut() {
            let ii = a.identities.clone();
            a.identities = permute_named(&ii, |x| x.clone(), &mut s);
        }
        d.assignments = Some(av);
    }
    d
}

fn dec(b: bool) -> Decision {
    if b {
        Decision::Allow
    } else {
        Decision::Deny
    }
}

pub fn eval(case0: &Case, stats: &mut Stats) -> Outcome {
    // tie the URL and the claims to the document (see gen::Bind); everything below sees the bound case
    let (url, claims) = gen::apply_bind(&case0.doc, &case0.url, &case0.claims, &case0.bind);
    let bound = Case { url, claims, ..case0.clone() };
    let case = &bound;
    let text = case.url.text();
    let uri: hyper::Uri = match text.parse() {
        Ok(u) => u,
        Err(_) => {
            stats.class("uri-rejected-by-parser");
            return Outcome::Pass;
        }
    };
    // the target as the agent's HTTP layer presents it
    let target = uri.path_and_query().map(|pq| pq.as_str().to_string()).unwrap_or_else(|| uri.path().to_string());
    let claims = agent::to_claims(&case.claims);
    if case.claims.exe == gen::EXE_RAW {
        let twin = case.doc.identities.as_ref().map(|is| is.iter().any(|i| i.exe.as_deref() == Some(gen::EXE_LOSSY))).unwrap_or(false);
        stats.class(if twin { "caller:executable-path-not-utf8(a-rule-states-its-lossy-image)" } else { "caller:executable-path-not-utf8" });
    }
    let computed = agent::to_computed(&case.doc);
    let got = agent::is_allowed(&computed, &uri, &claims);
    let adm = rbac::decide(&case.doc, &case.claims, &target);

    // ---- classification ----
    let mode = rbac::mode_of(&case.doc);
    stats.class(&format!("mode:{}", mode));
    stats.class(if got { "agent:allow" } else { "agent:deny" });
    let doc = &case.doc;
    let missing_section = doc.rules_present && (doc.privileges.is_none() || doc.roles.is_none() || doc.identities.is_none() || doc.assignments.is_none());
    if missing_section {
        stats.class("doc:missing-section");
    }
    if !doc.rules_present {
        stats.class("doc:no-rules-member");
    }
    let privs = doc.privileges.clone().unwrap_or_default();
    let upper_rule_path = privs.iter().any(|p| p.path.chars().any(|c| c.is_ascii_uppercase()));
    if upper_rule_path {
        stats.class("doc:upper-case-rule-path");
    }
    let matched = if doc.rules_present { privs.iter().filter(|p| rbac::pmatch(p, &target, QDup::Any)).count() } else { 0 };
    if matched > 0 {
        stats.class("url:matches-a-privilege");
    }
    let dangling = doc.roles.iter().flatten().any(|r| r.privileges.iter().any(|p| p == "p9"))
        || doc.assignments.iter().flatten().any(|a| a.role == "r9" || a.identities.iter().any(|i| i == "i9"));
    if dangling {
        stats.class("doc:dangling-reference");
    }
    if rbac::has_conflicting_duplicates(doc) {
        stats.class("underspecified:conflicting-duplicate-names");
    }
    if rbac::has_duplicate_query_keys(&target) {
        stats.class("underspecified:duplicate-request-query-keys");
    }
    let reachable_identity = doc.rules_present
        && doc.assignments.iter().flatten().any(|a| {
            doc.roles.iter().flatten().any(|r| r.name == a.role) && a.identities.iter().any(|n| doc.identities.iter().flatten().any(|i| i.name == *n))
        });
    if adm.underspecified {
        stats.underspec();
    } else if mode != "disabled" {
        let d = *adm.set.iter().next().unwrap();
        stats.class(match (d, matched > 0) {
            (Decision::Allow, true) => "ref:granted-through-assignment",
            (Decision::Deny, true) => "ref:denied-privilege-matched-nobody-granted",
            (Decision::Allow, false) => "ref:default-allow",
            (Decision::Deny, false) => "ref:default-deny",
        });
    }
    if mode != "disabled" && privs.len() >= 2 && matched >= 1 && reachable_identity && !adm.underspecified {
        stats.nontrivial_hash(h64(&(&case.doc, &case.claims, &case.url)));
    }
    stats.sample(|| serde_json::json!({"document": case.doc.to_json(), "claims": case.claims, "url": text, "agent_allows": got, "admissible": format!("{:?}", adm.set)}));

    // ---- oracle 1: differential ----
    if !adm.set.contains(&dec(got)) {
        // name the cause when it is one of the two behaviours read off the code (diagnostic only)
        let q_raw = rbac::decide_quirk(&case.doc, &case.claims, &target, rbac::Quirks { raw_rule_path: true, need_all_sections: false });
        let q_sec = rbac::decide_quirk(&case.doc, &case.claims, &target, rbac::Quirks { raw_rule_path: false, need_all_sections: true });
        let sig = if q_sec.contains(&dec(got)) && missing_section {
            "rbac:missing-section-drops-all-rules"
        } else if q_raw.contains(&dec(got)) && upper_rule_path {
            "rbac:rule-path-case-sensitive"
        } else {
            "rbac:decision-differs-from-reference"
        };
        return Outcome::fail(
            sig,
            format!("agent decided {:?}, reference admits {:?} for url {} claims {:?} doc {}", dec(got), adm.set, target, case.claims, case.doc.to_json()),
        );
    }

    // ---- oracle 2: metamorphic relations on the agent alone ----
    // (a) rebuilding the computed item (fresh hash state) must not change the decision
    for _ in 0..3 {
        let again = agent::is_allowed(&agent::to_computed(&case.doc), &uri, &claims);
        if again != got {
            return Outcome::fail("rbac:metamorphic:rebuild-flaps", format!("decision flips between rebuilds of the same document: {} vs {}", got, again));
        }
    }
    // (b) permutation of every list (same-named entries keep their relative order)
    let pd = permute_doc(&case.doc, case.perm_seed);
    let got_p = agent::is_allowed(&agent::to_computed(&pd), &uri, &claims);
    if got_p != got {
        return Outcome::fail(
            "rbac:metamorphic:order-dependence",
            format!("decision {} becomes {} after permuting the lists: {} -> {}", got, got_p, case.doc.to_json(), pd.to_json()),
        );
    }
    // (c) letter case of the request path and query
    let flipped = gen::flip_case(&target, case.flip);
    if let Ok(furi) = flipped.parse::<hyper::Uri>() {
        if !rbac::has_duplicate_query_keys(&target) {
            let got_f = agent::is_allowed(&computed, &furi, &claims);
            if got_f != got {
                return Outcome::fail("rbac:metamorphic:request-case", format!("decision {} for {} becomes {} for {}", got, target, got_f, flipped));
            }
        }
    }
    // (d) audit <-> enforce does not change the allow/deny decision itself
    if mode != "disabled" {
        let mut sw = case.doc.clone();
        sw.mode = if mode == "audit" { "enforce".into() } else { "audit".into() };
        let got_s = agent::is_allowed(&agent::to_computed(&sw), &uri, &claims);
        if got_s != got {
            return Outcome::fail("rbac:metamorphic:mode-swap", format!("decision {} becomes {} when only audit/enforce is swapped", got, got_s));
        }
    }
    // (e) letter case of the rule side (path, query keys and values)
    if !adm.underspecified {
        let mut fd = case.doc.clone();
        if let Some(ps) = &mut fd.privileges {
            for (i, p) in ps.iter_mut().enumerate() {
                p.path = gen::flip_case(&p.path, case.flip.rotate_left(i as u32 * 3));
                if let Some(q) = &mut p.query {
                    let mut nq: Vec<(String, String)> = Vec::new();
                    for (k, v) in q.iter() {
                        let nk = gen::flip_case(k, case.flip.rotate_left(7));
                        // keep keys unique as exact strings (JSON object)
                        if nq.iter().any(|(k2, _)| *k2 == nk) {
                            nq.push((k.clone(), v.clone()));
                        } else {
                            nq.push((nk, gen::flip_case(v, case.flip.rotate_left(11))));
                        }
                    }
                    *q = nq;
                }
            }
        }
        if !rbac::has_conflicting_duplicates(&fd) {
            let got_r = agent::is_allowed(&agent::to_computed(&fd), &uri, &claims);
            if got_r != got {
                return Outcome::fail(
                    "rbac:metamorphic:rule-case",
                    format!("decision {} becomes {} when only the letter case of rule paths/parameters changes: {} -> {}", got, got_r, case.doc.to_json(), fd.to_json()),
                );
            }
        }
    }
    Outcome::Pass
}
