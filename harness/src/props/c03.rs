//! C03 (pure half) — WireServer/HostGAPlugin are root-only under every policy; no self-proxying.
//! The agent's `proxy_authorizer::authorize` / `get_authorizer` against the reference table.

use crate::agent;
use crate::gen::{self, GClaims, GDoc, GUrl};
use crate::refmodel::authz::{self, Dest, Verdict};
use crate::report::{h64, Stats};
use crate::runner::Outcome;
use azure_proxy_agent::proxy::proxy_authorizer::{self, AuthorizeResult};
use azure_proxy_agent::proxy::proxy_connection::ConnectionLogger;
use proptest::prelude::*;
use serde::{Deserialize, Serialize};

#[derive(Clone, Debug, Serialize, Deserialize, Hash)]
pub struct Case {
    pub doc: Option<GDoc>,
    pub claims: GClaims,
    pub url: GUrl,
    pub ip: [u8; 4],
    pub port: u16,
}

pub fn dest_strategy() -> impl Strategy<Value = ([u8; 4], u16)> {
    let exact = prop_oneof![
        4 => Just(([168u8, 63, 129, 16], 80u16)),
        4 => Just(([168u8, 63, 129, 16], 32526u16)),
        2 => Just(([169u8, 254, 169, 254], 80u16)),
        2 => Just(([127u8, 0, 0, 1], 3080u16)),
    ];
    let ips = prop_oneof![
        6 => Just([168u8, 63, 129, 16]),
        3 => Just([169u8, 254, 169, 254]),
        3 => Just([127u8, 0, 0, 1]),
        1 => Just([168u8, 63, 129, 17]),
        1 => Just([16u8, 129, 63, 168]),
        1 => Just([10u8, 0, 0, 4]),
        1 => any::<[u8; 4]>(),
    ];
    let ports = prop_oneof![
        6 => Just(80u16), 5 => Just(32526u16), 3 => Just(3080u16),
        1 => Just(81u16), 1 => Just(32525u16), 1 => Just(3081u16), 1 => Just(20480u16) /* 80 byte-swapped */, 1 => any::<u16>(),
    ];
    prop_oneof![3 => exact, 1 => (ips, ports)]
}

pub fn strategy() -> impl Strategy<Value = Case> {
    (prop::option::weighted(0.85, gen::gdoc()), gen::gclaims(), gen::gurl(), gen::bind(), dest_strategy(), prop::bool::weighted(0.6)).prop_map(make_case)
}

fn make_case((doc, claims, url, bind, (ip, port), force_unelevated): (Option<GDoc>, GClaims, GUrl, gen::Bind, ([u8; 4], u16), bool)) -> Case {
    let (url, mut claims) = match &doc {
        Some(d) => gen::apply_bind(d, &url, &claims, &bind),
        None => (url, claims),
    };
    if force_unelevated {
        claims.elevated = false;
    }
    Case { doc, claims, url, ip, port }
}

/// the same case space, addressed by the words of a fuzz input (see `crate::words`)
pub fn case_from_words(w: &mut crate::words::Words) -> Case {
    use crate::words::draw;
    let h = w.next();
    let doc = if h % 7 == 0 { None } else { Some(gen::gdoc_from_words(w)) };
    make_case((doc, draw(&gen::gclaims(), w.next()), draw(&gen::gurl(), w.next()), draw(&gen::bind(), w.next()), draw(&dest_strategy(), w.next()), (h >> 8) % 5 < 3))
}

pub const RULE: &str = "generator: optional C02 rule document (all modes/defaults, including ones granting the caller) x claims (60% forced non-elevated; URL and claims mostly bound to the document so that the rules would grant) x URL x destination (ip, port) concentrated on the three protected endpoints, the proxy's own address and near misses (port +/- 1, byte-swapped, neighbouring ip). oracle: reference authorizer table; non-elevated caller to WireServer/HostGAPlugin and any caller to 127.0.0.1:3080 must be Forbidden. non-trivial: (non-elevated caller to WireServer/HostGAPlugin where the same caller elevated would be relayed by the rules, or the rule set is disabled/audit/absent) or a self-destination case with a rule set present; distinct by hash of the whole case.";

fn verdict_of(r: &AuthorizeResult) -> Verdict {
    if *r == AuthorizeResult::Ok {
        Verdict::Relay
    } else if *r == AuthorizeResult::OkWithAudit {
        Verdict::RelayWithAudit
    } else {
        Verdict::Block
    }
}

pub fn eval(case: &Case, stats: &mut Stats) -> Outcome {
    let text = case.url.text();
    let uri: hyper::Uri = match text.parse() {
        Ok(u) => u,
        Err(_) => {
            stats.class("uri-rejected-by-parser");
            return Outcome::Pass;
        }
    };
    let target = uri.path_and_query().map(|pq| pq.as_str().to_string()).unwrap_or_else(|| uri.path().to_string());
    let ip_text = format!("{}.{}.{}.{}", case.ip[0], case.ip[1], case.ip[2], case.ip[3]);
    let dest = authz::classify(case.ip, case.port);
    let claims = agent::to_claims(&case.claims);
    let computed = case.doc.as_ref().map(agent::to_computed);
    let mut logger = ConnectionLogger::new(0, 0);
    let got = verdict_of(&proxy_authorizer::authorize(ip_text.clone(), case.port, &mut logger, uri.clone(), claims.clone(), computed));
    let (adm, underspec) = authz::authorize(dest, &case.claims, &target, case.doc.as_ref());

    stats.class(&format!("dest:{:?}", dest));
    stats.class(if case.claims.elevated { "caller:elevated" } else { "caller:non-elevated" });
    stats.class(&format!("agent:{:?}", got));
    if underspec {
        stats.underspec();
    }
    let root_only = matches!(dest, Dest::WireServer | Dest::GaPlugin);
    if root_only && !case.claims.elevated {
        let mut as_root = case.claims.clone();
        as_root.elevated = true;
        let (would, _) = authz::authorize(dest, &as_root, &target, case.doc.as_ref());
        if would.contains(&Verdict::Relay) || would.contains(&Verdict::RelayWithAudit) {
            stats.class("nonroot-protected:rules-would-relay-if-elevated");
            stats.nontrivial_hash(h64(case));
        }
    }
    if dest == Dest::SelfProxy && case.doc.is_some() {
        stats.nontrivial_hash(h64(case));
    }
    stats.sample(|| serde_json::json!({"dest": format!("{}:{}", ip_text, case.port), "claims": case.claims, "url": text, "rules": case.doc.as_ref().map(|d| d.to_json()), "agent": format!("{:?}", got)}));

    // the statement of C03 itself, independent of the RBAC reference
    if root_only && !case.claims.elevated && got != Verdict::Block {
        return Outcome::fail("authz:non-elevated-caller-relayed-to-root-only-endpoint", format!("{:?} for non-elevated caller to {}:{} url {} rules {:?}", got, ip_text, case.port, target, case.doc.as_ref().map(|d| d.to_json())));
    }
    if dest == Dest::SelfProxy && got != Verdict::Block {
        return Outcome::fail("authz:self-destination-not-refused", format!("{:?} for destination {}:{}", got, ip_text, case.port));
    }
    // authorizer selection
    let name = proxy_authorizer::get_authorizer(ip_text.clone(), case.port, claims).to_string();
    let expect_prefix = match dest {
        Dest::WireServer => "WireServer",
        Dest::GaPlugin => "GAPlugin",
        Dest::Imds => "IMDS",
        Dest::SelfProxy => "ProxyAgent",
        Dest::Other => "Default",
    };
    if !name.starts_with(expect_prefix) {
        return Outcome::fail("authz:wrong-authorizer-selected", format!("{}:{} selected '{}' expected '{}'", ip_text, case.port, name, expect_prefix));
    }
    if !adm.contains(&got) {
        return Outcome::fail("authz:verdict-differs-from-reference", format!("agent {:?}, reference admits {:?}; dest {}:{} url {} claims {:?} rules {:?}", got, adm, ip_text, case.port, target, case.claims, case.doc.as_ref().map(|d| d.to_json())));
    }
    Outcome::Pass
}
