//! C04 (pure half) — the canonical string and MAC: `as_sig_input` and `build_request` against the
//! independent canonicaliser + HMAC; the two signing routes agree.

use crate::gen::{self, flip_case};
use crate::hmacsha;
use crate::refmodel::canon::{self, ParamOrder};
use crate::report::{h64, Stats};
use crate::runner::Outcome;
use azure_proxy_agent::common::{helpers, hyper_client};
use hyper::body::Bytes;
use proptest::prelude::*;
use serde::{Deserialize, Serialize};
use std::collections::HashMap;

#[derive(Clone, Debug, Serialize, Deserialize, Hash)]
pub struct Case {
    pub method: String,
    pub path: String,
    /// None: no '?'
    pub query: Option<String>,
    /// header set: names unique case-insensitively
    pub headers: Vec<(String, String)>,
    pub body: Vec<u8>,
    pub key: String,
    pub guid: String,
}

/// method tokens are case-sensitive and travel as spelled (RFC 9110 9.1): the lower- and mixed-case ones are extension methods
pub const METHODS: &[&str] = &["GET", "POST", "PUT", "DELETE", "PATCH", "HEAD", "OPTIONS", "GET", "POST", "PUT", "get", "Patch", "m-search", "PROPFIND", "pOST"];
pub const HNAMES: &[&str] = &[
    "metadata", "x-ms-version", "content-type", "accept", "user-agent", "x-a", "x-ab", "x-ms-client-request-id", "if-match", "x-ms-azure-host-authorization",
    "x-zz", "a",
];
const QK: &[&str] = &["a", "ab", "abc", "b", "comp", "api-version", "keyonly", "type", "%61", "a%3d"];
const QV: &[&str] = &["", "1", "c", "bc", "b=c", "config", "2021-02-01", "https%3a%2f%2fstorage.azure.com%2f", "%41", "A", "a"];

pub fn query_piece() -> impl Strategy<Value = String> {
    prop_oneof![
        10 => (gen::sel(QK), gen::case_mask(), gen::sel(QV), gen::case_mask()).prop_map(|(k, km, v, vm)| {
            let (k, v) = (flip_case(&k, km), flip_case(&v, vm));
            if v.is_empty() { format!("{}=", k) } else { format!("{}={}", k, v) }
        }),
        3 => (gen::sel(QK), gen::case_mask()).prop_map(|(k, km)| flip_case(&k, km)),
        1 => gen::sel(QV).prop_map(|v| format!("={}", v)),
        1 => Just(String::new()),
        1 => prop::sample::select(vec!["a=bc&ab=c", "ab=c&a=bc", "abc&a=bc", "ab=c&abc=", "a=1&a=1", "A=1&a=1", "keyonly&keyonly", "b=&b"]).prop_map(|s| s.to_string()),
    ]
}

pub fn query() -> impl Strategy<Value = Option<String>> {
    prop::option::weighted(0.8, prop::collection::vec(query_piece(), 0..6).prop_map(|v| v.join("&")))
}

/// header values are carried in the case as strings of characters <= U+00FF; character c stands for byte c
/// (obs-text bytes 0x80-0xFF are legal in a field value)
pub fn value_bytes(v: &str) -> Vec<u8> {
    v.chars().map(|c| c as u32 as u8).collect()
}

pub fn header_value() -> impl Strategy<Value = String> {
    prop_oneof![
        4 => "[!-~]{0,12}",
        2 => "[!-~\\x{80}-\\x{ff}]{1,10}",
        1 => "[\\x{a0}\\x{85}]{1,2}[!-~]{1,6}[\\x{a0}\\x{85}]{0,2}",
        3 => "[ \t]{0,2}[!-~][ -~]{0,10}[!-~][ \t]{0,2}",
        1 => Just("True ".to_string()),
        1 => Just(String::new()),
        1 => "[ \t]{1,3}",
    ]
}

pub fn header_set(exclude: &'static [&'static str]) -> impl Strategy<Value = Vec<(String, String)>> {
    prop::collection::vec((0usize..HNAMES.len(), gen::case_mask(), header_value()), 0..7).prop_map(move |v| {
        let mut seen = std::collections::BTreeSet::new();
        let mut out = Vec::new();
        for (i, m, val) in v {
            let n = HNAMES[i];
            if exclude.contains(&n) || !seen.insert(n) {
                continue;
            }
            out.push((flip_case(n, m), val));
        }
        out
    })
}

pub fn body() -> impl Strategy<Value = Vec<u8>> {
    prop_oneof![
        3 => Just(Vec::new()),
        4 => prop::collection::vec(any::<u8>(), 1..40),
        2 => prop::collection::vec(prop::sample::select(vec![b'\n', b'a', b'\r', b':', b' ']), 1..24),
        1 => prop::collection::vec(any::<u8>(), 1000..3000),
    ]
}

pub fn key_hex() -> impl Strategy<Value = String> {
    // 256-bit secrets as a rule; HMAC keys of other sizes (128 / 384 / 512 bit) are valid keys too
    (prop_oneof![8 => prop::collection::vec(any::<u8>(), 32), 1 => prop::collection::vec(any::<u8>(), 16), 1 => prop::collection::vec(any::<u8>(), 48), 1 => prop::collection::vec(any::<u8>(), 64)], any::<bool>()).prop_map(|(b, upper)| {
        let h = hmacsha::hex_lower(&b);
        if upper {
            h.to_uppercase()
        } else {
            h
        }
    })
}

pub fn guid() -> impl Strategy<Value = String> {
    (any::<[u8; 16]>(), prop_oneof![6 => Just(0u8), 1 => Just(1u8), 1 => Just(2u8)]).prop_map(|(b, case)| {
        let h = hmacsha::hex_lower(&b);
        let g = format!("{}-{}-{}-{}-{}", &h[0..8], &h[8..12], &h[12..16], &h[16..20], &h[20..32]);
        // the key id is opaque text: the host may spell it in upper or mixed case
        match case {
            1 => g.to_uppercase(),
            2 => g.chars().enumerate().map(|(n, c)| if n % 3 == 0 { c.to_ascii_uppercase() } else { c }).collect(),
            _ => g,
        }
    })
}

pub fn path() -> impl Strategy<Value = String> {
    (gen::sel(gen::PATHS), gen::case_mask(), prop::sample::select(vec!["", "", "/", "/a8016240-7286/49c242ba%2Dc18a.%5Fvm2", "/x;y", "/%0a"])).prop_map(|(p, m, sfx)| {
        let mut s = flip_case(&p, m);
        if !(s.ends_with('/') && sfx.starts_with('/')) {
            s.push_str(sfx);
        }
        s
    })
}

pub fn strategy() -> impl Strategy<Value = Case> {
    (gen::sel(METHODS), path(), query(), header_set(&[]), body(), key_hex(), guid()).prop_map(|(method, path, query, headers, body, key, guid)| Case {
        method,
        path,
        query,
        headers,
        body,
        key,
        guid,
    })
}

/// the same case space, addressed by the words of a fuzz input (see `crate::words`); `own`: route (b)
pub fn case_from_words(w: &mut crate::words::Words, own: bool) -> Case {
    use crate::words::draw;
    Case {
        method: draw(&gen::sel(METHODS), w.next()),
        path: draw(&path(), w.next()),
        query: draw(&query(), w.next()),
        headers: draw(&header_set(if own { ADDED_BY_BUILD_REQUEST } else { &[] }), w.next()),
        body: draw(&body(), w.next()),
        key: draw(&key_hex(), w.next()),
        guid: draw(&guid(), w.next()),
    }
}

pub const RULE: &str = "generator: method (the usual ones, and extension tokens in lower / mixed case such as get, Patch, m-search: tokens are case-sensitive and reach the host as spelled) x path (case flips, %xx) x query pieces from colliding pools (duplicate keys, exact duplicate pairs, valueless keys with and without '=', empty keys, keys that are prefixes of other keys so that key+value concatenations collide, mixed case, %xx) x header set (unique names, any case, values with surrounding blanks) x body (empty, binary, '\\n'-heavy, KB-sized) x random 32-byte key in either hex case x guid. oracle: (a) as_sig_input == independent canonical string (exact parameter multiset; either admissible order), every single-component change changes the string, header order/name-case/blank padding does not; (b) build_request's MAC == HMAC_ref(key, canon_ref(parts of the built request)) == compute_signature(as_sig_input(those parts)). non-trivial: >= 2 parameters or a valueless/duplicate/prefix-related/escaped/mixed-case one, or a header with surrounding blanks or upper-case name, or a body containing a line feed; distinct by hash of the case.";

fn target_of(c: &Case) -> String {
    match &c.query {
        Some(q) => format!("{}?{}", c.path, q),
        None => c.path.clone(),
    }
}

fn build_parts(method: &str, target: &str, headers: &[(String, String)]) -> Option<http::request::Parts> {
    let mut b = http::Request::builder().method(method).uri(target);
    for (n, v) in headers {
        b = b.header(n.as_str(), http::HeaderValue::from_bytes(&value_bytes(v)).ok()?);
    }
    Some(b.body(()).ok()?.into_parts().0)
}

fn agent_canon(method: &str, target: &str, headers: &[(String, String)], body: &[u8]) -> Option<Vec<u8>> {
    let parts = build_parts(method, target, headers)?;
    Some(hyper_client::as_sig_input(parts, Bytes::copy_from_slice(body)))
}

fn hdr_bytes(headers: &[(String, String)]) -> Vec<(String, Vec<u8>)> {
    headers.iter().map(|(n, v)| (n.clone(), value_bytes(v))).collect()
}

/// the agent's documented collapse (map keyed by lower(key)+value): used only to *name* that finding
fn collapsed_by_concat(target: &str) -> Vec<(String, String)> {
    let mut m: std::collections::BTreeMap<String, (String, String)> = Default::default();
    for (k, v) in canon::canon_params(target) {
        m.insert(format!("{}{}", k, v), (k, v));
    }
    m.into_values().collect()
}

pub fn eval(case: &Case, stats: &mut Stats) -> Outcome {
    let target = target_of(case);
    let parts = match build_parts(&case.method, &target, &case.headers) {
        Some(p) => p,
        None => {
            stats.class("request-rejected-by-http-types");
            return Outcome::Pass;
        }
    };
    // the target as the HTTP layer presents it
    let seen_target = parts.uri.path_and_query().map(|pq| pq.as_str().to_string()).unwrap_or_else(|| parts.uri.path().to_string());
    let got = hyper_client::as_sig_input(parts, Bytes::copy_from_slice(&case.body));
    let hb = hdr_bytes(&case.headers);
    let ref_t = canon::canon(&case.method, &seen_target, &hb, &case.body, ParamOrder::Tuple);
    let ref_c = canon::canon(&case.method, &seen_target, &hb, &case.body, ParamOrder::Concat);

    // classification
    let params = canon::canon_params(&seen_target);
    let mut sorted = params.clone();
    sorted.sort();
    let exact_dup = sorted.windows(2).any(|w| w[0] == w[1]);
    let mut concat: Vec<String> = params.iter().map(|(k, v)| format!("{}{}", k, v)).collect();
    concat.sort();
    let concat_collision = concat.windows(2).any(|w| w[0] == w[1]);
    let dup_key = sorted.windows(2).any(|w| w[0].0 == w[1].0);
    let valueless = params.iter().any(|(_, v)| v.is_empty());
    let prefix_related = params.iter().any(|(k, _)| params.iter().any(|(k2, _)| k2 != k && k2.starts_with(k.as_str())));
    let blanks = case.headers.iter().any(|(_, v)| v.starts_with([' ', '\t']) || v.ends_with([' ', '\t']));
    let upper_name = case.headers.iter().any(|(n, _)| n.chars().any(|c| c.is_ascii_uppercase()));
    let lf_body = case.body.contains(&b'\n');
    if exact_dup { stats.class("query:exact-duplicate-pair"); }
    if concat_collision && !exact_dup { stats.class("query:key+value-concatenation-collision"); }
    if dup_key { stats.class("query:duplicate-key"); }
    if valueless { stats.class("query:valueless-key"); }
    if prefix_related { stats.class("query:prefix-related-keys"); }
    if blanks { stats.class("header:surrounding-blanks"); }
    if upper_name { stats.class("header:upper-case-name"); }
    if lf_body { stats.class("body:contains-LF"); }
    if ref_t != ref_c { stats.class("underspecified:parameter-order-differs-between-admissible-orders"); stats.underspec(); }
    let nontrivial = params.len() >= 2 || valueless || target.contains('%') || blanks || upper_name || lf_body;
    if nontrivial {
        stats.nontrivial_hash(h64(case));
    }
    stats.sample(|| serde_json::json!({"method": case.method, "target": target, "headers": case.headers, "body_len": case.body.len(), "canonical_params_ref": canon::render_params(&canon::order_params(params.clone(), ParamOrder::Concat))}));

    if got != ref_t && got != ref_c {
        // name the component
        let n_headers = case.headers.iter().filter(|(n, _)| !n.eq_ignore_ascii_case(canon::AUTHZ_HEADER)).count();
        let sig;
        let mut detail = String::new();
        match (canon::split_canon(&got, case.body.len(), n_headers), canon::split_canon(&ref_c, case.body.len(), n_headers)) {
            (Some(g), Some(r)) => {
                if g.method != r.method {
                    sig = "canon:method-differs".to_string();
                } else if g.body != r.body {
                    sig = "canon:body-differs".to_string();
                } else if g.header_lines != r.header_lines {
                    sig = "canon:headers-differ".to_string();
                    detail = format!("agent headers {:?} reference {:?}", g.header_lines.iter().map(|l| String::from_utf8_lossy(l).to_string()).collect::<Vec<_>>(), r.header_lines.iter().map(|l| String::from_utf8_lossy(l).to_string()).collect::<Vec<_>>());
                } else if g.path != r.path {
                    sig = "canon:path-differs".to_string();
                } else {
                    let collapsed = canon::render_params(&canon::order_params(collapsed_by_concat(&seen_target), ParamOrder::Concat));
                    if g.params == collapsed.as_bytes() && (exact_dup || concat_collision) {
                        sig = "canon:query-parameters-collapsed-by-key+value".to_string();
                    } else {
                        sig = "canon:parameters-differ".to_string();
                    }
                    detail = format!("agent params '{}' reference '{}'", String::from_utf8_lossy(&g.params), String::from_utf8_lossy(&r.params));
                }
            }
            _ => {
                sig = "canon:structure-differs".to_string();
            }
        }
        return Outcome::fail(sig, format!("{} target {} headers {:?} body_len {}; agent string {:?}", detail, target, case.headers, case.body.len(), String::from_utf8_lossy(&got)));
    }

    // metamorphic: invariance under header order / name case / blank padding
    {
        let mut hs: Vec<(String, String)> = case.headers.iter().rev().map(|(n, v)| (flip_case(n, 0x5555_5555), format!(" {}\t", v))).collect();
        // padding must stay a legal header value: fine, blanks only
        if let Some(g2) = agent_canon(&case.method, &target, &hs, &case.body) {
            if g2 != got {
                return Outcome::fail("canon:metamorphic:header-order-case-padding-changes-string", format!("headers {:?} vs {:?}", case.headers, hs));
            }
        }
        hs.clear();
    }
    // metamorphic: every single-component change changes the string
    {
        let m2 = if case.method == "GET" { "POST" } else { "GET" };
        if agent_canon(m2, &target, &case.headers, &case.body).as_deref() == Some(&got[..]) {
            return Outcome::fail("canon:metamorphic:method-not-covered", "changing the method leaves the string unchanged");
        }
        let mut b2 = case.body.clone();
        if b2.is_empty() { b2.push(b'x'); } else { let l = b2.len(); b2[l / 2] ^= 0x20; }
        if agent_canon(&case.method, &target, &case.headers, &b2).as_deref() == Some(&got[..]) {
            return Outcome::fail("canon:metamorphic:body-not-covered", "changing one body byte leaves the string unchanged");
        }
        let p2 = format!("{}z", case.path);
        let t2 = match &case.query { Some(q) => format!("{}?{}", p2, q), None => p2 };
        if agent_canon(&case.method, &t2, &case.headers, &case.body).as_deref() == Some(&got[..]) {
            return Outcome::fail("canon:metamorphic:path-not-covered", "changing the path leaves the string unchanged");
        }
        // one more parameter
        let t3 = match &case.query { Some(q) if !q.is_empty() => format!("{}?{}&zz=9", case.path, q), _ => format!("{}?zz=9", case.path) };
        if agent_canon(&case.method, &t3, &case.headers, &case.body).as_deref() == Some(&got[..]) {
            return Outcome::fail("canon:metamorphic:added-parameter-not-covered", "adding a parameter leaves the string unchanged");
        }
        // one header value changed
        for i in 0..case.headers.len() {
            if case.headers[i].0.eq_ignore_ascii_case(canon::AUTHZ_HEADER) { continue; }
            let mut h2 = case.headers.clone();
            h2[i].1 = format!("{}q", h2[i].1.trim_matches([' ', '\t']));
            if agent_canon(&case.method, &target, &h2, &case.body).as_deref() == Some(&got[..]) {
                return Outcome::fail("canon:metamorphic:header-value-not-covered", format!("changing header {} leaves the string unchanged", case.headers[i].0));
            }
        }
    }
    // MAC through the agent's own function == independent HMAC
    match (helpers::compute_signature(&case.key, &got), hmacsha::mac_hex(&case.key, &got)) {
        (Ok(a), Some(r)) => {
            if a != r {
                return Outcome::fail("mac:compute_signature-differs-from-reference-hmac", format!("agent {} reference {}", a, r));
            }
        }
        (Err(e), _) => return Outcome::fail("mac:compute_signature-failed-on-valid-key", format!("{}", e.to_string().len())),
        _ => {}
    }
    Outcome::Pass
}

// ------------------------------------------------------------------------------------------------
// route (b): the agent's own calls (build_request) sign the same way

const ADDED_BY_BUILD_REQUEST: &[&str] = &["x-ms-azure-host-date", "host", "x-ms-azure-host-claims", "content-length", "x-ms-azure-host-authorization"];

pub fn own_strategy() -> impl Strategy<Value = Case> {
    (gen::sel(METHODS), path(), query(), header_set(ADDED_BY_BUILD_REQUEST), body(), key_hex(), guid()).prop_map(|(method, path, query, headers, body, key, guid)| Case {
        method,
        path,
        query,
        headers,
        body,
        key,
        guid,
    })
}

pub fn eval_own(case: &Case, stats: &mut Stats) -> Outcome {
    let target = target_of(case);
    let full: hyper::Uri = match format!("http://168.63.129.16:80{}", target).parse() {
        Ok(u) => u,
        Err(_) => {
            stats.class("uri-rejected-by-parser");
            return Outcome::Pass;
        }
    };
    let mut hm = HashMap::new();
    for (n, v) in &case.headers {
        hm.insert(n.clone(), v.clone());
    }
    let method = http::Method::from_bytes(case.method.as_bytes()).unwrap();
    let body_opt = if case.body.is_empty() { None } else { Some(case.body.as_slice()) };
    let req = match hyper_client::build_request(method, &full, &hm, body_opt, Some(case.guid.clone()), Some(case.key.clone())) {
        Ok(r) => r,
        Err(e) => {
            // header values with inner control characters etc. are rejected by the http types: not a signing matter
            stats.class("build_request-rejected");
            let _ = e;
            return Outcome::Pass;
        }
    };
    let (parts, _) = req.into_parts();
    let seen_target = parts.uri.path_and_query().map(|pq| pq.as_str().to_string()).unwrap_or_default();
    let hdrs: Vec<(String, Vec<u8>)> = parts.headers.iter().map(|(n, v)| (n.as_str().to_string(), v.as_bytes().to_vec())).collect();
    let auth: Vec<&(String, Vec<u8>)> = hdrs.iter().filter(|(n, _)| n == canon::AUTHZ_HEADER).collect();
    if auth.len() != 1 {
        return Outcome::fail("own-route:authorization-header-count", format!("{} authorization headers", auth.len()));
    }
    let auth_text = String::from_utf8_lossy(&auth[0].1).to_string();
    let want_prefix = format!("Azure-HMAC-SHA256 {} ", case.guid);
    if !auth_text.starts_with(&want_prefix) {
        return Outcome::fail("own-route:authorization-header-shape", auth_text);
    }
    let mac = &auth_text[want_prefix.len()..];
    let params = canon::canon_params(&seen_target);
    if params.len() >= 2 || hm.len() >= 2 || case.body.contains(&b'\n') {
        stats.nontrivial_hash(h64(case));
    }
    stats.sample(|| serde_json::json!({"method": case.method, "url": full.to_string(), "headers": case.headers, "body_len": case.body.len(), "authorization": auth_text}));
    let ref_t = hmacsha::mac_hex(&case.key, &canon::canon(&case.method, &seen_target, &hdrs, &case.body, ParamOrder::Tuple)).unwrap();
    let ref_c = hmacsha::mac_hex(&case.key, &canon::canon(&case.method, &seen_target, &hdrs, &case.body, ParamOrder::Concat)).unwrap();
    // the proxied route's canonicaliser on the very same parts
    let proxied = hyper_client::as_sig_input(parts, Bytes::copy_from_slice(&case.body));
    let proxied_mac = match helpers::compute_signature(&case.key, &proxied) {
        Ok(m) => m,
        Err(_) => return Outcome::fail("own-route:compute_signature-failed", "valid key"),
    };
    if proxied_mac != mac {
        return Outcome::fail("routes-disagree:build_request-vs-as_sig_input", format!("build_request MAC {} but as_sig_input over the same request gives {}; target {} headers {:?}", mac, proxied_mac, seen_target, case.headers));
    }
    if mac != ref_t && mac != ref_c {
        let mut sorted = params.clone();
        sorted.sort();
        let mut concat: Vec<String> = params.iter().map(|(k, v)| format!("{}{}", k, v)).collect();
        concat.sort();
        let collapse = sorted.windows(2).any(|w| w[0] == w[1]) || concat.windows(2).any(|w| w[0] == w[1]);
        let sig = if collapse { "canon:query-parameters-collapsed-by-key+value" } else { "own-route:mac-does-not-verify" };
        return Outcome::fail(sig, format!("MAC {} does not verify under the independent canonicaliser; target {} headers {:?}", mac, seen_target, String::from_utf8_lossy(&serde_json::to_vec(&case.headers).unwrap())));
    }
    Outcome::Pass
}
