//! C05 — proxy-owned headers cannot be spoofed or duplicated; and the end-to-end half of C04:
//! the MAC on the bytes the host actually received verifies under the independent canonicaliser.

use crate::gen::{self, flip_case, GReq};
use crate::hmacsha;
use crate::mockhost::Recorded;
use crate::props::c01::exchange;
use crate::refmodel::canon::{self, ParamOrder};
use crate::report::{h64, Stats};
use crate::rig::{DestSel, Rec, Rig};
use crate::runner::Outcome;
use proptest::prelude::*;
use serde::{Deserialize, Serialize};
use std::time::{SystemTime, UNIX_EPOCH};

pub const CLAIMS: &str = "x-ms-azure-host-claims";
pub const DATE: &str = "x-ms-azure-host-date";
pub const AUTHZ: &str = "x-ms-azure-host-authorization";

#[derive(Clone, Debug, Serialize, Deserialize, Hash)]
pub struct Spoof {
    /// 0 claims, 1 date, 2 authorization
    pub which: u8,
    pub name_mask: u32,
    pub value: String,
}

#[derive(Clone, Debug, Serialize, Deserialize, Hash)]
pub struct Case {
    pub rec: Rec,
    pub key: Option<(String, String)>,
    pub req: GReq,
    pub spoofs: Vec<Spoof>,
    /// where in the header list each spoof is inserted (monotone index map)
    pub positions: Vec<u16>,
    /// afterwards, on ONE keep-alive connection: a request, then the latched key is replaced by this one, then the request again
    #[serde(default)]
    pub rotate_to: Option<(String, String)>,
    /// 1: the request has no Host header (hyper's server accepts that); 2: no Host header and HTTP/1.0
    #[serde(default)]
    pub no_host: u8,
    /// the wall clock moves forward by this many seconds between a first request and the request under test
    /// (only when the clock shim is loaded: C05 workers)
    #[serde(default)]
    pub clock_jump_s: Option<u32>,
    /// the request (POST/PUT/PATCH only) is sent chunked with a `Trailer:` announcement and a trailer section that
    /// carries client-chosen copies of the claims and date headers
    #[serde(default)]
    pub trailer_spoof: bool,
    /// non-zero: the client also sends a `Connection` header that nominates proxy-owned names as hop-by-hop fields
    /// (bit 0 claims, bit 1 date, bit 2 authorization, bit 3 'keep-alive' listed first, bit 4 no blank after the commas)
    #[serde(default)]
    pub conn_nominate: u8,
    /// a request with a body: its second half arrives after this many milliseconds (a slow caller)
    #[serde(default)]
    pub slow_body_ms: Option<u16>,
    /// afterwards, on ONE keep-alive connection: a request after whose response the host closes its connection with the proxy,
    /// then the request under test again
    #[serde(default)]
    pub host_hangup: bool,
    /// a NON-elevated caller's record whose elevation field holds this value instead of 0 (only 1 means elevated; a failed
    /// check leaves a negative number): the claims header still says not elevated
    #[serde(default)]
    pub admin_raw: Option<i32>,
}

/// move the process's wall clock forward (harness/csrc/clockshift.c, preloaded into the C05 workers); false = shim absent
pub fn clock_jump(secs: u32) -> bool {
    let f = unsafe { libc::dlsym(libc::RTLD_DEFAULT, b"clockshift_add\0".as_ptr() as *const libc::c_char) };
    if f.is_null() {
        return false;
    }
    let add: extern "C" fn(i64) = unsafe { std::mem::transmute(f) };
    add(secs as i64 * 1_000_000_000);
    true
}

/// the text a spoofed header carries on the wire: "{KEYID}" stands for the id of the key latched in this case
pub fn wire_value(case: &Case, s: &Spoof) -> String {
    let id = case.key.as_ref().map(|(g, _)| g.clone()).unwrap_or_else(|| "11111111-2222-3333-4444-555555555555".to_string());
    s.value.replace("{KEYID}", &id)
}

fn spoof() -> impl Strategy<Value = Spoof> {
    let claims_v = prop_oneof![
        Just("{ \"isRoot\": \"true\"}".to_string()),
        Just("{ \"isRoot\": \"false\"}".to_string()),
        Just("{\"isRoot\":\"true\"}".to_string()),
        Just("junk".to_string())
    ];
    let date_v = prop_oneof![Just("Mon, 01 Jan 2001 00:00:00 GMT".to_string()), Just("Fri, 31 Dec 2100 23:59:59 GMT".to_string()), Just("yesterday".to_string())];
    let auth_v = prop_oneof![
        any::<[u8; 32]>().prop_map(|m| format!("Azure-HMAC-SHA256 11111111-2222-3333-4444-555555555555 {}", hmacsha::hex_lower(&m))),
        // a forged value that names the key that is latched NOW (the key id is no secret: every signed request shows it);
        // "{KEYID}" is filled in per case by wire_value()
        any::<[u8; 32]>().prop_map(|m| format!("Azure-HMAC-SHA256 {{KEYID}} {}", hmacsha::hex_lower(&m))),
        any::<[u8; 32]>().prop_map(|m| format!("Azure-HMAC-SHA256 {{KEYID}} {} trailing", hmacsha::hex_lower(&m))),
        Just("value".to_string()),
        Just("Azure-HMAC-SHA256".to_string())
    ];
    prop_oneof![
        (Just(0u8), gen::case_mask(), claims_v),
        (Just(1u8), gen::case_mask(), date_v),
        (Just(2u8), gen::case_mask(), auth_v),
    ]
    .prop_map(|(which, name_mask, value)| Spoof { which, name_mask, value })
}

fn dest_and_root() -> impl Strategy<Value = (DestSel, u8, Option<bool>)> {
    prop_oneof![
        6 => (Just(DestSel::Imds), 0u8..5, Just(None)),
        2 => (Just(DestSel::Imds), 0u8..5, any::<bool>().prop_map(Some)),
        2 => (Just(DestSel::WireServer), 0u8..5, Just(Some(true))),
        1 => (Just(DestSel::GaPlugin), 0u8..5, Just(Some(true))),
        1 => (Just(DestSel::Other), 0u8..5, Just(None)),
    ]
}

fn exempt_or(url: impl Strategy<Value = gen::GUrl>) -> impl Strategy<Value = (Option<&'static str>, gen::GUrl)> {
    prop_oneof![
        20 => url.prop_map(|u| (None, u)),
        1 => gen::case_mask().prop_map(|m| (Some("PUT"), gen::GUrl { path: flip_case("/vmAgentLog", m), query: None })),
        1 => gen::case_mask().prop_map(|m| (Some("POST"), gen::GUrl { path: flip_case("/machine/", m), query: Some(flip_case("comp=telemetrydata", m.rotate_left(9))) })),
        // neighbours of the two exemptions: NOT exempt (another method, a query on the log upload, one more parameter, a
        // trailing slash, the telemetry query on another path) - they are signed like everything else
        2 => (gen::case_mask(), prop::sample::select(vec![
            ("PUT", "/vmAgentLog", Some("comp=goalstate")), ("PUT", "/vmAgentLog", Some("")), ("PUT", "/vmAgentLog", Some("incarnation=7&type=full")),
            ("POST", "/vmAgentLog", None), ("PUT", "/vmAgentLog/", None), ("PUT", "/machine/", Some("comp=telemetrydata")),
            ("POST", "/machine/", Some("comp=telemetrydata&x=1")), ("POST", "/machine", Some("comp=telemetrydata")), ("POST", "/machine/x", Some("comp=telemetrydata")),
        ])).prop_map(|(m, (method, path, query))| (Some(method), gen::GUrl { path: flip_case(path, m), query: query.map(|q| flip_case(q, m.rotate_left(9))) })),
    ]
}

pub fn strategy(spoof_range: std::ops::Range<usize>, key_prob: f64) -> impl Strategy<Value = Case> {
    (
        dest_and_root(),
        0u8..5,
        prop::option::weighted(key_prob, (crate::props::c04::guid(), crate::props::c04::key_hex())),
        gen::greq_with(gen::gurl_no_traversal()),
        exempt_or(Just(gen::GUrl { path: String::new(), query: None })),
        prop::collection::vec(spoof(), spoof_range),
        prop::collection::vec(any::<u16>(), 8),
        (crate::props::c04::query(), prop::option::weighted(0.2, (crate::props::c04::guid(), crate::props::c04::key_hex())), prop_oneof![8 => Just(0u8), 1 => Just(1u8), 1 => Just(2u8)], prop::option::weighted(0.2, prop::sample::select(vec![1u32, 59, 60, 61, 120, 300, 3600, 3660, 86400, 7 * 86400, 31 * 86400])), prop::bool::weighted(0.25), prop_oneof![5 => Just(0u8), 1 => 1u8..32], prop::option::weighted(0.04, prop::sample::select(vec![300u16, 1100, 1600, 2300])), prop::bool::weighted(0.12), prop::option::weighted(0.15, prop::sample::select(vec![-1i32, -22, i32::MIN, 2, 256, i32::MAX]))),
    )
        .prop_map(|((dest, uid_sel, root), helper_sel, key, mut req, (exempt_method, exempt_url), spoofs, positions, (rich_query, rotate_to, no_host, clock_jump_s, trailer_spoof, conn_nominate, slow_body_ms, host_hangup, admin_raw))| {
            if let Some(m) = exempt_method {
                req.method = m.to_string();
                req.url = exempt_url;
                req.bind.priv_sel = None;
            } else {
                if req.url.path == "/provision" {
                    req.url.path = "/provisioned".into();
                }
                // the colliding query pools of C04
                if rich_query.is_some() {
                    req.url.query = rich_query;
                }
            }
            Case { rec: Rec { uid_sel, helper_sel, is_root: root.unwrap_or(uid_sel == 0), dest }, key, req, spoofs, positions, rotate_to, no_host, clock_jump_s, trailer_spoof, conn_nominate, slow_body_ms, host_hangup, admin_raw }
        })
}

pub const RULE_C05: &str = "generator: 15% of the non-elevated records carry an elevation field other than 0 (-1, -22, i32::MIN, 2, 256, i32::MAX: only 1 means elevated); in 12% of the cases the request is sent again on a keep-alive connection right after the host has closed its side following an earlier response (nothing relayed, or relayed with exactly the proxy's headers); one case in six also carries a client Connection header that nominates proxy-owned names as hop-by-hop fields (one list, any letter case, with or without keep-alive); a quarter of the POST/PUT/PATCH requests are sent chunked with a Trailer announcement and a trailer section carrying client-chosen claims and date fields (they must not reach the host in any part of the message); in 20% of the cases the wall clock of the worker process is moved forward (1 s .. 31 days; 59/60/61 s, hours and days included) between a first request and the request under test, through a preloaded clock_gettime shim that shifts CLOCK_REALTIME for harness and agent alike, and once more between two requests on one keep-alive connection; attributed, authorised requests (IMDS from root and non-root callers with the elevation flag following the uid or set independently; WireServer/HostGAPlugin from elevated callers; another destination) with no rule sets, a key latched in 70% of the cases, carrying 0-3 client-supplied copies of x-ms-azure-host-claims / -date / -authorization in random letter case, at random positions among the other headers, with values {the opposite or same elevation claim in two spellings, an old and a future RFC 1123 date, a well-formed authorization value with a random MAC naming an unknown key id or the id of the key latched now (with or without a fourth token), junk}. oracle on the raw bytes captured at the mock host: exactly one claims line whose value states the record's elevation; exactly one date line, RFC 1123, within 5 s of the harness clock; if a key is latched and the request is not signature-exempt exactly one authorization line, none of the client's values, and its MAC verifies (C04). non-trivial: at least one spoofed copy or a nominating Connection header; distinct by hash of the case.";
pub const RULE_C04: &str = "end-to-end half (4% of the cases: the second half of the request body arrives 0.3-2.3 s after the first): the same rig with a key always latched and no spoofed headers; query strings from C04's colliding pools, header sets, bodies as Content-Length or chunked. oracle: the mock's raw bytes are parsed by the independent HTTP reader; exactly one authorization line 'Azure-HMAC-SHA256 <guid> <64 hex>'; HMAC_ref(key, canon_ref(received method, de-framed body, received header lines, received target)) equals it for one of the two admissible parameter orders (a transport-generated 'content-length: 0' on a body-less request may be in or out: counted as underspecified). 10% of the requests carry no Host header and 10% are HTTP/1.0 without one (hyper's server accepts both). In 20% of the cases the request is then sent twice on one keep-alive connection with the latched key replaced in between: the second one must announce and verify under the new key. Exempt uploads (PUT /vmAgentLog, POST /machine/?comp=telemetrydata, any letter case) must carry no proxy signature. non-trivial: >= 2 parameters or an escaped/valueless one, or >= 2 client headers, or a body with a line feed; distinct by hash of the case.";

fn days_from_civil(y: i64, m: i64, d: i64) -> i64 {
    let y = if m <= 2 { y - 1 } else { y };
    let era = if y >= 0 { y } else { y - 399 } / 400;
    let yoe = y - era * 400;
    let doy = (153 * (m + if m > 2 { -3 } else { 9 }) + 2) / 5 + d - 1;
    let doe = yoe * 365 + yoe / 4 - yoe / 100 + doy;
    era * 146097 + doe - 719468
}

/// "Sat, 26 Sep 2026 22:56:50 GMT" -> unix seconds
pub fn parse_rfc1123(s: &str) -> Option<i64> {
    let b: Vec<&str> = s.split(' ').collect();
    if b.len() != 6 || b[5] != "GMT" || !b[0].ends_with(',') || b[0].len() != 4 {
        return None;
    }
    if !["Mon,", "Tue,", "Wed,", "Thu,", "Fri,", "Sat,", "Sun,"].contains(&b[0]) {
        return None;
    }
    let d: i64 = b[1].parse().ok()?;
    let m = ["Jan", "Feb", "Mar", "Apr", "May", "Jun", "Jul", "Aug", "Sep", "Oct", "Nov", "Dec"].iter().position(|x| *x == b[2])? as i64 + 1;
    let y: i64 = b[3].parse().ok()?;
    let t: Vec<&str> = b[4].split(':').collect();
    if t.len() != 3 || b[1].len() != 2 || b[3].len() != 4 {
        return None;
    }
    let (hh, mm, ss): (i64, i64, i64) = (t[0].parse().ok()?, t[1].parse().ok()?, t[2].parse().ok()?);
    let days = days_from_civil(y, m, d);
    // weekday must agree
    let wd = ((days % 7) + 7 + 3) % 7; // 1970-01-01 was a Thursday: index 0 = Mon
    if ["Mon,", "Tue,", "Wed,", "Thu,", "Fri,", "Sat,", "Sun,"][wd as usize] != b[0] {
        return None;
    }
    Some(days * 86400 + hh * 3600 + mm * 60 + ss)
}

pub fn is_exempt(method: &str, target: &str) -> bool {
    let t = target.to_lowercase();
    (method == "PUT" && t == "/vmagentlog") || (method == "POST" && t == "/machine/?comp=telemetrydata")
}

/// Verify the authorization line of a request as the host received it. Ok(underspecified?)
pub fn verify_received(r: &Recorded, key_by_guid: &dyn Fn(&str) -> Option<String>, client_had_framing_header: bool) -> Result<bool, (String, String)> {
    let auth = r.head.get_all(AUTHZ);
    if auth.len() != 1 {
        return Err(("signing:authorization-line-count".into(), format!("{} authorization lines at the host", auth.len())));
    }
    let text = String::from_utf8_lossy(auth[0]).to_string();
    let parts: Vec<&str> = text.split(' ').collect();
    if parts.len() != 3 || parts[0] != "Azure-HMAC-SHA256" || parts[2].len() != 64 || !parts[2].chars().all(|c| c.is_ascii_digit() || ('a'..='f').contains(&c)) {
        return Err(("signing:authorization-line-shape".into(), text));
    }
    let key = match key_by_guid(parts[1]) {
        Some(k) => k,
        None => return Err(("signing:unknown-key-id".into(), text)),
    };
    let hdrs: Vec<(String, Vec<u8>)> = r.head.headers.clone();
    // header set? (duplicates make the canonical string ambiguous; they are a C05 matter)
    let mut names: Vec<String> = hdrs.iter().map(|(n, _)| n.to_ascii_lowercase()).collect();
    names.sort();
    let dup = names.windows(2).any(|w| w[0] == w[1]);
    let mut variants: Vec<(Vec<(String, Vec<u8>)>, bool)> = vec![(hdrs.clone(), false)];
    if !client_had_framing_header && r.body.is_empty() {
        let without: Vec<(String, Vec<u8>)> = hdrs.iter().filter(|(n, v)| !(n.eq_ignore_ascii_case("content-length") && v.as_slice() == b"0")).cloned().collect();
        if without.len() != hdrs.len() {
            variants.push((without, true));
        }
    }
    for (hs, under) in &variants {
        for order in [ParamOrder::Concat, ParamOrder::Tuple] {
            let c = canon::canon(&r.method, &r.target, hs, &r.body, order);
            if hmacsha::mac_hex(&key, &c).as_deref() == Some(parts[2]) {
                return Ok(*under);
            }
        }
    }
    if dup {
        return Err(("signing:mac-does-not-verify(duplicate-header-names-at-host)".into(), format!("target {} headers {:?}", r.target, r.head.headers.iter().map(|(n, v)| (n.clone(), String::from_utf8_lossy(v).to_string())).collect::<Vec<_>>())));
    }
    Err((
        "signing:mac-does-not-verify-over-received-request".into(),
        format!("authorization '{}' does not verify for what the host received: {} {} headers {:?} body_len {}", text, r.method, r.target, r.head.headers.iter().map(|(n, v)| (n.clone(), String::from_utf8_lossy(v).to_string())).collect::<Vec<_>>(), r.body.len()),
    ))
}

fn fail2(sig: impl Into<String>, detail: impl Into<String>) -> Result<(), (String, String)> {
    Err((sig.into(), detail.into()))
}

/// the proxy-owned header lines of one request as the host received it
fn check_proxy_headers(case: &Case, r: &Recorded, exempt: bool, t_send: i64, t_recv: i64, stats: &mut Stats) -> Result<(), (String, String)> {
    // ---- claims ----
    let claims = r.head.get_all(CLAIMS);
    if claims.len() != 1 {
        return fail2("headers:claims-line-count", format!("{} claims lines at the host: {:?}", claims.len(), claims.iter().map(|v| String::from_utf8_lossy(v).to_string()).collect::<Vec<_>>()));
    }
    let want = format!("{{ \"isRoot\": \"{}\"}}", case.rec.is_root);
    if claims[0] != want.as_bytes() {
        return fail2("headers:claims-value-not-the-records-elevation", format!("host saw '{}' expected '{}' (record is_root={})", String::from_utf8_lossy(claims[0]), want, case.rec.is_root));
    }
    // ---- date ----
    let dates = r.head.get_all(DATE);
    if dates.len() != 1 {
        return fail2("headers:date-line-count", format!("{} date lines at the host: {:?}", dates.len(), dates.iter().map(|v| String::from_utf8_lossy(v).to_string()).collect::<Vec<_>>()));
    }
    let dtext = String::from_utf8_lossy(dates[0]).to_string();
    match parse_rfc1123(&dtext) {
        None => return fail2("headers:date-not-rfc1123", dtext),
        Some(t) => {
            if t < t_send - 5 || t > t_recv + 5 {
                return fail2("headers:date-not-current-time", format!("'{}' = {} outside [{}, {}]", dtext, t, t_send - 5, t_recv + 5));
            }
        }
    }
    // ---- authorization ----
    let auth = r.head.get_all(AUTHZ);
    if case.key.is_some() && !exempt {
        let (g, k) = case.key.as_ref().unwrap();
        for s in case.spoofs.iter().filter(|s| s.which % 3 == 2) {
            let sv = wire_value(case, s);
            if auth.iter().any(|a| *a == sv.as_bytes()) {
                return fail2("headers:client-authorization-reached-host-on-signed-request", format!("client value '{}' among {:?}", sv, auth.iter().map(|v| String::from_utf8_lossy(v).to_string()).collect::<Vec<_>>()));
            }
        }
        let client_framing = !(case.req.body.is_empty() && case.req.bare_empty);
        match verify_received(r, &|guid| if guid == g { Some(k.clone()) } else { None }, client_framing) {
            Ok(under) => {
                if under {
                    stats.underspec();
                    stats.class("underspecified:transport-added-content-length-0");
                }
            }
            Err((sig, detail)) => return Err((sig, detail)),
        }
    } else if exempt && case.key.is_some() {
        // exempt uploads must not be (mis-)signed by the proxy: any authorization line must be the client's own
        for a in &auth {
            if !case.spoofs.iter().any(|s| s.which % 3 == 2 && wire_value(case, s).as_bytes() == *a) {
                return fail2("signing:exempt-request-carries-proxy-authorization", String::from_utf8_lossy(a).to_string());
            }
        }
    }
    Ok(())
}

pub fn eval(rig: &Rig, case: &Case, stats: &mut Stats, c04_focus: bool) -> Outcome {
    rig.set_rules(None, None, None);
    rig.set_key(case.key.as_ref().map(|(g, k)| (g.as_str(), k.as_str())));
    let target = case.req.url.text();
    if target.parse::<hyper::Uri>().is_err() || target.contains(' ') || target.is_empty() {
        stats.class("target-not-a-valid-uri");
        return Outcome::Pass;
    }
    // place the spoofed headers among the others
    let mut req = case.req.clone();
    for (i, s) in case.spoofs.iter().enumerate() {
        let name = flip_case([CLAIMS, DATE, AUTHZ][s.which as usize % 3], s.name_mask);
        let pos = crate::runner::pick(case.positions[i % case.positions.len()], req.headers.len() + 1);
        req.headers.insert(pos, (name, wire_value(case, s)));
    }
    if case.conn_nominate & 7 != 0 {
        // the client declares proxy-owned names hop-by-hop: the host must still get exactly one of each, stamped by the proxy
        let names: Vec<String> = [CLAIMS, DATE, AUTHZ].iter().enumerate().filter(|(i, _)| case.conn_nominate & (1 << i) != 0).map(|(i, n)| flip_case(n, (case.positions[i % case.positions.len()] as u32).wrapping_mul(0x9e37_79b9))).collect();
        let at = crate::runner::pick(case.positions[7 % case.positions.len()], req.headers.len() + 1);
        let mut list = names.join(if case.conn_nominate & 16 != 0 { "," } else { ", " });
        if case.conn_nominate & 8 != 0 {
            list = format!("keep-alive, {}", list);
        }
        req.headers.insert(at, ("Connection".to_string(), list));
        stats.class("request:connection-header-nominates-proxy-owned-names");
    }
    let mut wire = req.wire(&target, &[]);
    // client-chosen copies in the TRAILER section of a chunked request
    let trailer_values: Option<(String, String)> = if case.trailer_spoof && matches!(req.method.as_str(), "POST" | "PUT" | "PATCH") {
        Some((format!("{{ \"isRoot\": \"{}\"}}", !case.rec.is_root), "Thu, 01 Jan 1970 00:00:00 GMT".to_string()))
    } else {
        None
    };
    if let Some((c, d)) = &trailer_values {
        let mut hs: Vec<(String, Vec<u8>)> = vec![("Host".to_string(), b"168.63.129.16".to_vec())];
        for (n, v) in &req.headers {
            hs.push((n.clone(), v.as_bytes().to_vec()));
        }
        hs.push(("Transfer-Encoding".into(), b"chunked".to_vec()));
        hs.push(("Trailer".into(), format!("{}, {}", CLAIMS, DATE).into_bytes()));
        let body: Vec<u8> = if req.body.is_empty() { b"body-before-the-trailer-section".to_vec() } else { req.body.clone() };
        req.body = body.clone();
        req.chunked = Some(vec![7]);
        wire = crate::rawhttp::request_head(&req.method, &target, &hs);
        let mut enc = crate::rawhttp::encode_chunked(&body, &[7]);
        enc.truncate(enc.len() - 2);
        enc.extend_from_slice(format!("{}: {}\r\n{}: {}\r\n\r\n", CLAIMS, c, DATE, d).as_bytes());
        wire.extend_from_slice(&enc);
        stats.class("request:chunked-with-proxy-owned-names-in-the-trailer-section");
    }
    if case.no_host % 3 != 0 && (case.no_host % 3 == 1 || req.chunked.is_none() || req.body.is_empty()) {
        let line = b"Host: 168.63.129.16\r\n";
        if let Some(at) = wire.windows(line.len()).position(|w| w == line) {
            wire.drain(at..at + line.len());
            stats.class("request:without-host-header");
            if case.no_host % 3 == 2 {
                if let Some(v) = wire.windows(11).position(|w| w == b" HTTP/1.1\r\n") {
                    wire[v + 8] = b'0';
                    stats.class("request:http/1.0");
                }
            }
        }
    }
    if let Some(j) = case.clock_jump_s {
        // a first request, then the wall clock jumps, then the request under test at once
        let first = crate::rawhttp::request_head("GET", "/before-the-clock-moved", &[("Host".into(), b"h".to_vec())]);
        let _ = exchange(rig, Some(&case.rec), &first, "GET");
        if clock_jump(j) {
            stats.class("wall-clock-moved-forward-between-two-requests");
        }
    }
    let t_send = SystemTime::now().duration_since(UNIX_EPOCH).unwrap().as_secs() as i64;
    let pause = match (case.slow_body_ms, crate::rawhttp::head_end(&wire)) {
        (Some(ms), Some(h)) if wire.len() > h + 1 => {
            stats.class(if ms >= 1000 { "request:second-half-of-the-body-arrives-after->=1s" } else { "request:second-half-of-the-body-arrives-late" });
            Some((h + (wire.len() - h) / 2, std::time::Duration::from_millis(ms as u64)))
        }
        _ => None,
    };
    let mut entry = rig.entry_of(&case.rec);
    // WireServer / HostGAPlugin need an elevated caller: the odd elevation values go with the other destinations
    if let (Some(v), false, false) = (case.admin_raw, case.rec.is_root, matches!(case.rec.dest, DestSel::WireServer | DestSel::GaPlugin)) {
        entry.is_admin = v;
        stats.class("record:elevation-field-neither-0-nor-1");
    }
    let obs = match crate::props::c01::exchange_with_entry(rig, Some(entry), &wire, &req.method, pause) {
        Ok(o) => o,
        Err(e) => return Outcome::fail("rig:cannot-open-connection", e),
    };
    let t_recv = SystemTime::now().duration_since(UNIX_EPOCH).unwrap().as_secs() as i64;
    let exempt = is_exempt(&req.method, &target);
    stats.class(if exempt { "request:signature-exempt" } else { "request:signed-class" });
    stats.class(if case.key.is_some() { "key:latched" } else { "key:none" });
    stats.class(&format!("spoofed-copies:{}", case.spoofs.len()));
    stats.class(&format!("dest:{:?}", case.rec.dest));
    stats.class(if case.rec.is_root { "caller:elevated" } else { "caller:non-elevated" });
    if obs.requests.len() != 1 {
        return Outcome::fail(
            "relay:authorised-request-not-relayed-once",
            format!("{} requests at the host for {} {} (status {:?}, error {:?})", obs.requests.len(), req.method, target, obs.status, obs.client_error),
        );
    }
    let r = &obs.requests[0];
    let params = canon::canon_params(&target);
    if c04_focus {
        if params.len() >= 2 || target.contains('%') || params.iter().any(|(_, v)| v.is_empty()) || case.req.headers.len() >= 2 || case.req.body.contains(&b'\n') {
            stats.nontrivial_hash(h64(case));
        }
    } else if !case.spoofs.is_empty() || case.conn_nominate & 7 != 0 {
        stats.nontrivial_hash(h64(case));
    }
    stats.sample(|| {
        serde_json::json!({"record": case.rec, "key_latched": case.key.is_some(), "client_request_head": String::from_utf8_lossy(&wire[..wire.len().min(600)]),
        "host_received_head": String::from_utf8_lossy(&r.head.raw)})
    });

    // ---- nothing the client chose under the proxy-owned names may reach the host, in whatever part of the message ----
    if let Some((c, d)) = &trailer_values {
        for v in [c, d] {
            if r.raw.windows(v.len()).any(|w| w == v.as_bytes()) {
                return Outcome::fail("headers:client-value-reached-the-host-in-the-trailer-section", format!("'{}' is in what the host received: {:?}", v, String::from_utf8_lossy(&r.raw[..r.raw.len().min(900)])));
            }
        }
    }
    if let Err((sig, d)) = check_proxy_headers(case, r, exempt, t_send, t_recv, stats) {
        return Outcome::fail(sig, d);
    }
    // ---- the clock moves while a keep-alive connection stays open: the date is the time of the REQUEST ----
    if let Some(j) = case.clock_jump_s {
        let wire = crate::rawhttp::request_head("GET", "/metadata/instance?api-version=2021-02-01", &[("Host".into(), b"169.254.169.254".to_vec()), ("Metadata".into(), b"true".to_vec())]);
        let mut conn = match rig.open(Some(rig.entry_of(&case.rec)), 0) {
            Ok(c) => c,
            Err(e) => return Outcome::fail("rig:cannot-open-connection", e),
        };
        for round in 0..2 {
            if round == 1 && clock_jump(j) {
                stats.class("wall-clock-moved-forward-on-an-open-keep-alive-connection");
            }
            let _ = rig.mock.take_requests();
            let t0 = SystemTime::now().duration_since(UNIX_EPOCH).unwrap().as_secs() as i64;
            if conn.send(&wire).is_err() || conn.read("GET", std::time::Duration::from_secs(20)).is_err() {
                return Outcome::fail("relay:keep-alive-connection-lost", format!("request {} of the keep-alive connection", round + 1));
            }
            let t1 = SystemTime::now().duration_since(UNIX_EPOCH).unwrap().as_secs() as i64;
            let seen = rig.mock.take_requests();
            if seen.len() != 1 {
                return Outcome::fail("relay:authorised-request-not-relayed-once", format!("{} requests at the host for request {} of the keep-alive connection", seen.len(), round + 1));
            }
            let dates = seen[0].head.get_all(DATE);
            if dates.len() != 1 {
                return Outcome::fail("headers:date-line-count", format!("{} date lines at the host (keep-alive request {})", dates.len(), round + 1));
            }
            let dtext = String::from_utf8_lossy(dates[0]).to_string();
            match parse_rfc1123(&dtext) {
                None => return Outcome::fail("headers:date-not-rfc1123", dtext),
                Some(t) => {
                    if t < t0 - 5 || t > t1 + 5 {
                        return Outcome::fail("headers:date-not-current-time", format!("request {} on a keep-alive connection{}: '{}' = {} outside [{}, {}]", round + 1, if round == 1 { format!(" after the clock moved by {} s", j) } else { String::new() }, dtext, t, t0 - 5, t1 + 5));
                    }
                }
            }
            let claims = seen[0].head.get_all(CLAIMS);
            if claims.len() != 1 {
                return Outcome::fail("headers:claims-line-count", format!("{} claims lines at the host (keep-alive request {})", claims.len(), round + 1));
            }
        }
        crate::rawhttp::close_abortive(conn.stream);
    }
    // ---- the latched key is replaced while a keep-alive connection stays open ----
    if let (Some((g2, k2)), Some((g1, k1)), false) = (&case.rotate_to, &case.key, exempt) {
        stats.class("key-replaced-on-an-open-keep-alive-connection");
        let plain = gen::GReq { headers: case.req.headers.clone(), ..case.req.clone() };
        let wire = plain.wire(&target, &[]);
        let mut conn = match rig.open(Some(rig.entry_of(&case.rec)), 0) {
            Ok(c) => c,
            Err(e) => return Outcome::fail("rig:cannot-open-connection", e),
        };
        for (round, (g, k)) in [(g1, k1), (g2, k2)].into_iter().enumerate() {
            if round == 1 {
                rig.set_key(Some((g.as_str(), k.as_str())));
            }
            let _ = rig.mock.take_requests();
            if let Err(e) = conn.send(&wire) {
                return Outcome::fail("relay:keep-alive-connection-lost", e.to_string());
            }
            if let Err(e) = conn.read(&plain.method, std::time::Duration::from_secs(20)) {
                return Outcome::fail("relay:keep-alive-connection-lost", format!("request {} on the connection: {:?}", round + 1, e));
            }
            let seen = rig.mock.take_requests();
            if seen.len() != 1 {
                return Outcome::fail("relay:authorised-request-not-relayed-once", format!("{} requests at the host for request {} of the keep-alive connection", seen.len(), round + 1));
            }
            let client_framing = !(plain.body.is_empty() && plain.bare_empty);
            // the host knows the key that is latched NOW, and only that one
            if let Err((sig, detail)) = verify_received(&seen[0], &|guid| if guid == g { Some(k.clone()) } else { None }, client_framing) {
                return Outcome::fail(if round == 1 { "signing:request-after-key-replacement-not-signed-with-the-latched-key".to_string() } else { sig }, detail);
            }
        }
        crate::rawhttp::close_abortive(conn.stream);
    }
    // ---- the host hangs up after a response while the client's connection stays open: whatever the proxy does with the next
    // request (an error status without relay, or a relay over a new host connection), what reaches the host carries exactly
    // the proxy's own headers
    if case.host_hangup {
        stats.class("host-hangs-up-on-an-open-keep-alive-connection");
        rig.mock.set_responder(Box::new(|r| {
            let mut s = crate::mockhost::ResponseSpec::ok(b"mock");
            s.close_after = r.head.get("x-host-hangs-up").is_some();
            s
        }));
        let result = (|| -> Result<(), (String, String)> {
            let mut conn = rig.open(Some(rig.entry_of(&case.rec)), 0).map_err(|e| ("rig:cannot-open-connection".to_string(), e))?;
            let first = crate::rawhttp::request_head("GET", "/before-the-host-hangs-up", &[("Host".into(), b"169.254.169.254".to_vec()), ("x-host-hangs-up".into(), b"1".to_vec())]);
            if conn.send(&first).is_err() || conn.read("GET", std::time::Duration::from_secs(20)).is_err() {
                crate::rawhttp::close_abortive(conn.stream);
                return Ok(());
            }
            std::thread::sleep(std::time::Duration::from_millis(5));
            let _ = rig.mock.take_requests();
            let t0 = SystemTime::now().duration_since(UNIX_EPOCH).unwrap().as_secs() as i64;
            let _ = conn.send(&wire);
            let r2 = conn.read(&req.method, std::time::Duration::from_secs(20));
            let t1 = SystemTime::now().duration_since(UNIX_EPOCH).unwrap().as_secs() as i64;
            let seen = rig.mock.take_requests();
            crate::rawhttp::close_abortive(conn.stream);
            match seen.len() {
                0 => {
                    stats.class("after-the-hang-up:not-relayed");
                    let _ = r2;
                    Ok(())
                }
                1 => {
                    stats.class("after-the-hang-up:relayed-over-a-new-host-connection");
                    check_proxy_headers(case, &seen[0], exempt, t0, t1, stats)
                }
                n => Err(("relay:request-relayed-more-than-once".to_string(), format!("{} requests at the host for one request after the host hung up", n))),
            }
        })();
        rig.mock.set_responder(Box::new(|_r| crate::mockhost::ResponseSpec::ok(b"mock")));
        if let Err((sig, d)) = result {
            return Outcome::fail(sig, format!("after the host closed its connection with the proxy: {}", d));
        }
    }
    Outcome::Pass
}
