//! C06 (engine in bin/ebpfsim.rs, fuzz target fuzz/fuzz_targets/ebpf.rs) — the kernel hook redirects exactly the protected connects and records the true caller.
//! The UNMODIFIED ebpf_cgroup.c runs in user space (see build.rs, csrc/); the agent's own encoders
//! and decoders (ebpf_obj.rs, AuditEntry accessors, string_to_ip/ip_to_string) run on the very bytes
//! the C program reads and writes; a Rust reference model says what must happen.

#![allow(non_camel_case_types, dead_code)]

#[path = "/repo/proxy_agent/src/redirector/linux/ebpf_obj.rs"]
mod ebpf_obj;

use azure_proxy_agent::common::constants;
use azure_proxy_agent::redirector::{ip_to_string, string_to_ip, AuditEntry};
use ebpf_obj::{destination_entry, sock_addr_audit_entry, sock_addr_audit_key, sock_addr_skip_process_entry};
use crate::report::{h64, Stats};
use crate::runner::Outcome;
use proptest::prelude::*;
use serde::{Deserialize, Serialize};
use std::collections::{BTreeMap, BTreeSet};
use std::ffi::CString;

#[repr(C)]
#[derive(Clone, Copy, PartialEq, Eq, Debug)]
pub struct bpf_sock_addr {
    pub user_family: u32,
    pub user_ip4: u32,
    pub user_ip6: [u32; 4],
    pub user_port: u32,
    pub family: u32,
    pub type_: u32,
    pub protocol: u32,
    pub msg_src_ip4: u32,
    pub msg_src_ip6: [u32; 4],
    pub sk: u64,
}

#[link(name = "ebpfsim", kind = "static")]
extern "C" {
    pub fn sim_reset();
    pub fn sim_set_task(tgid: u32, pid: u32, uid: u32, gid: u32);
    pub fn sim_run_connect4(ctx: *mut bpf_sock_addr) -> i32;
    pub fn sim_run_kprobe(daddr_be: u32, dport_be: u16, local_port_host: u16, family: u16) -> i32;
    pub fn sim_sizeof_sock_addr() -> u32;
    pub fn sim_map_info(name: *const libc::c_char, ks: *mut u32, vs: *mut u32, max: *mut u32, ty: *mut u32) -> i32;
    pub fn sim_map_update(name: *const libc::c_char, key: *const libc::c_void, value: *const libc::c_void) -> libc::c_long;
    pub fn sim_map_delete(name: *const libc::c_char, key: *const libc::c_void) -> libc::c_long;
    pub fn sim_map_lookup(name: *const libc::c_char, key: *const libc::c_void, out: *mut libc::c_void) -> i32;
    pub fn sim_map_count(name: *const libc::c_char) -> u32;
}

pub fn cs(s: &str) -> CString {
    CString::new(s).unwrap()
}

pub const AF_INET: u32 = 2;
pub const IPPROTO_TCP: u32 = 6;
pub const IPPROTO_UDP: u32 = 17;

#[derive(Clone, Copy, Debug, Serialize, Deserialize, Hash, PartialEq, Eq, PartialOrd, Ord)]
pub struct Task {
    pub tgid: u32,
    pub tid: u32,
    pub uid: u32,
    pub gid: u32,
}

#[derive(Clone, Debug, Serialize, Deserialize, Hash)]
pub enum Op {
    SetPolicy { ep: u8, on: bool },
    Begin { task: u8, ep: u8, udp: bool },
    /// the kernel reaches tcp_connect for the task's pending connect
    /// `reuse`: the kernel hands out a source port whose earlier connection was dropped before the agent accepted it (its record is still in the map)
    Finish { task: u8, #[serde(default)] reuse: bool },
    /// the oldest finished, redirected connection is reset before the agent accepts it: its record is never consumed
    Drop,
    /// the kernel gives up the task's pending connect between the two hook points
    Abort { task: u8 },
    /// the agent accepts the oldest finished, redirected connection: lookup + decode + remove
    Accept,
}

#[derive(Clone, Debug, Serialize, Deserialize, Hash)]
pub struct Case {
    pub tasks: Vec<Task>,
    /// index of the task whose process is the agent itself (its pid is in the skip map before the programs are attached)
    pub agent: Option<u8>,
    pub ops: Vec<Op>,
}

/// endpoints: the three protected ones, near misses and others (ip as dotted bytes, port)
pub const ENDPOINTS: &[([u8; 4], u16)] = &[
    ([168, 63, 129, 16], 80),
    ([169, 254, 169, 254], 80),
    ([168, 63, 129, 16], 32526),
    ([168, 63, 129, 16], 81),
    ([168, 63, 129, 17], 80),
    ([169, 254, 169, 254], 20480), // 80 byte-swapped
    ([16, 129, 63, 168], 80),      // address byte-swapped
    ([10, 0, 0, 4], 443),
    ([127, 0, 0, 1], 3080),
];

pub fn task() -> impl Strategy<Value = Task> {
    (prop::sample::select(vec![100u32, 200, 300, 4000]), 0u32..3, prop::sample::select(vec![0u32, 0, 1000, 1001, 33]), prop::sample::select(vec![0u32, 1000, 100, 27, 0])).prop_map(|(tgid, t, uid, gid)| Task { tgid, tid: tgid + t, uid, gid })
}

pub fn op() -> impl Strategy<Value = Op> {
    prop_oneof![
        3 => (0u8..ENDPOINTS.len() as u8, prop::bool::weighted(0.8)).prop_map(|(ep, on)| Op::SetPolicy { ep: if ep < 3 || ep % 4 == 0 { ep } else { ep % 3 }, on }),
        8 => (0u8..6, 0u8..ENDPOINTS.len() as u8, prop::bool::weighted(0.12)).prop_map(|(task, ep, udp)| Op::Begin { task, ep, udp }),
        8 => (0u8..6, prop::bool::weighted(0.3)).prop_map(|(task, reuse)| Op::Finish { task, reuse }),
        2 => Just(Op::Drop),
        1 => (0u8..6).prop_map(|task| Op::Abort { task }),
        4 => Just(Op::Accept),
    ]
}

pub fn strategy() -> impl Strategy<Value = Case> {
    (prop::collection::vec(task(), 2..7), prop::option::weighted(0.7, 0u8..6), prop::collection::vec(op(), 4..48)).prop_map(|(tasks, agent, mut ops)| {
        // most histories start with the policy the agent installs at start-up
        let mut pre = vec![Op::SetPolicy { ep: 0, on: true }, Op::SetPolicy { ep: 1, on: true }, Op::SetPolicy { ep: 2, on: true }];
        pre.append(&mut ops);
        Case { tasks, agent, ops: pre }
    })
}

/// many connects in flight between the two hook points at once (up to the capacity the maps are declared with, 200):
/// n threads pass connect4 for protected endpoints, then all reach tcp_connect in FIFO / LIFO / shuffled order, then
/// the agent accepts them all; every one of them must have its own, correct record
pub fn inflight_strategy() -> impl Strategy<Value = Case> {
    (2usize..=200, 0u8..3, any::<u64>(), prop::option::weighted(0.5, 0u8..200)).prop_map(|(n, order, seed, agent)| {
        let tasks: Vec<Task> = (0..n).map(|i| Task { tgid: 1000 + (i / 3) as u32, tid: 5000 + i as u32, uid: [0u32, 1000, 1001, 33][i % 4], gid: [0u32, 100, 27, 0][(i / 2) % 4] }).collect();
        let mut ops = vec![Op::SetPolicy { ep: 0, on: true }, Op::SetPolicy { ep: 1, on: true }, Op::SetPolicy { ep: 2, on: true }];
        for i in 0..n {
            ops.push(Op::Begin { task: i as u8, ep: (i % 3) as u8, udp: false });
        }
        let mut idx: Vec<usize> = (0..n).collect();
        match order {
            1 => idx.reverse(),
            2 => {
                let mut x = seed | 1;
                for i in (1..n).rev() {
                    x ^= x << 13;
                    x ^= x >> 7;
                    x ^= x << 17;
                    idx.swap(i, (x % (i as u64 + 1)) as usize);
                }
            }
            _ => {}
        }
        for i in idx {
            ops.push(Op::Finish { task: i as u8, reuse: false });
        }
        for _ in 0..n {
            ops.push(Op::Accept);
        }
        Case { tasks, agent: agent.filter(|a| (*a as usize) < n), ops }
    })
}

/// the same case space, addressed by the words of a fuzz input (see `crate::words`): one word per task and per operation
pub fn case_from_words(w: &mut crate::words::Words) -> Case {
    use crate::words::draw;
    let h = w.next();
    let tasks = (0..2 + (h % 5) as usize).map(|_| draw(&task(), w.next())).collect();
    let agent = if (h >> 8) % 10 < 7 { Some(((h >> 16) % 6) as u8) } else { None };
    let n = w.words_left().clamp(4, 47);
    let mut ops = vec![Op::SetPolicy { ep: 0, on: true }, Op::SetPolicy { ep: 1, on: true }, Op::SetPolicy { ep: 2, on: true }];
    ops.extend((0..n).map(|_| draw(&op(), w.next())));
    Case { tasks, agent, ops }
}

pub const RULE: &str = "generator: histories of 7-50 operations over 2-6 tasks (threads of 4 processes, uid and gid drawn independently so that uid != gid is the norm, uid 0 with gid != 0 and the reverse included) and 9 endpoints (the three protected ones, port +/- 1, neighbouring address, byte-swapped port, byte-swapped address, an unrelated address, the proxy's own): the agent's pid placed in the skip map before any connect and SetPolicy(endpoint, on/off), both performed with the agent's own encoders (destination_entry / sock_addr_skip_process_entry bytes go into the program's maps, string_to_ip(PROXY_AGENT_IP) for the value), Begin = run connect4 on a bpf_sock_addr filled as the kernel fills it (network byte order, TCP or UDP), Finish = allocate a source port and run the tcp_connect kprobe on a sock_common built from the possibly rewritten address, Abort = the kernel gives the connect up between the hooks, Drop = a redirected connection is reset before the agent accepts it (its record is never consumed) and 30% of the later Finish operations get such a port again, Accept = the agent's decode path (sock_addr_audit_key::from_source_port, sock_addr_audit_entry::from_array, AuditEntry accessors) + remove. Begin/Finish of different tasks interleave freely. oracle (Rust reference model): rewritten to 127.0.0.1:3080 iff (ip, port, protocol) is in the policy at Begin and the process is not skipped, otherwise the context is byte-identical; after Finish a record keyed (TCP, source port) exists iff the connect was rewritten and decodes to logon_id = uid, process_id = tgid, is_admin = (uid == 0), original ip and port; no record for any other connect; ip_to_string/string_to_ip round-trip; the byte-order constants equal their dotted forms. second engine: 2-200 threads (the capacity the maps are declared with) pass connect4 for protected endpoints before any of them reaches tcp_connect, then finish in FIFO / LIFO / shuffled order and are all accepted. non-trivial: >= 2 tasks in flight between the phases, >= 1 protected and >= 1 unprotected connect, and >= 1 task with uid != gid; distinct by hash of the history.";

#[derive(Clone, Debug)]
pub struct Pending {
    pub ip: u32,
    pub port: u16,
    pub rewritten: bool,
    pub udp: bool,
    pub ctx_after: bpf_sock_addr,
}

pub fn map_lookup(name: &str, key: &[u32]) -> Option<[u32; 5]> {
    let mut out = [0u32; 16];
    let rc = unsafe { sim_map_lookup(cs(name).as_ptr(), key.as_ptr() as *const libc::c_void, out.as_mut_ptr() as *mut libc::c_void) };
    if rc == 0 {
        Some([out[0], out[1], out[2], out[3], out[4]])
    } else {
        None
    }
}

pub fn eval(case: &Case, stats: &mut Stats) -> Outcome {
    unsafe { sim_reset() };
    let proxy_ip = string_to_ip(constants::PROXY_AGENT_IP);
    let proxy_value = destination_entry::from_ipv4(proxy_ip, constants::PROXY_AGENT_PORT).to_array();
    // reference state
    let mut policy: BTreeSet<(u32, u16)> = BTreeSet::new(); // (ip in network order as u32, port host order), TCP only
    let mut skip: BTreeSet<u32> = BTreeSet::new();
    let mut pending: BTreeMap<u8, Pending> = BTreeMap::new(); // per task index
    let mut aborted_threads: BTreeSet<(u32, u32)> = BTreeSet::new(); // threads with a stale pending entry after an abort
    let mut finished: Vec<(u16, Task, u32, u16)> = Vec::new(); // redirected connections awaiting accept: (source port, task, ip, port)
    let mut next_port: u16 = 40000;
    let mut stale_ports: Vec<u16> = Vec::new(); // ports whose redirected connection was dropped before accept
    let mut expect_records: BTreeMap<u16, (Task, u32, u16)> = BTreeMap::new();
    let mut max_in_flight = 0usize;
    let (mut n_prot, mut n_unprot) = (0u32, 0u32);
    let mut policy_changed_in_flight = false;
    let ntasks = case.tasks.len();
    let nbo = |ip: [u8; 4]| u32::from_ne_bytes(ip);

    if let Some(a) = case.agent {
        let t = case.tasks[a as usize % ntasks];
        let e = sock_addr_skip_process_entry::from_pid(t.tgid).to_array();
        let rc = unsafe { sim_map_update(cs("skip_process_map").as_ptr(), e.as_ptr() as *const libc::c_void, e.as_ptr() as *const libc::c_void) };
        if rc == 0 {
            skip.insert(t.tgid);
        }
    }
    for (step, op) in case.ops.iter().enumerate() {
        match op {
            Op::SetPolicy { ep, on } => {
                let (ip, port) = ENDPOINTS[*ep as usize % ENDPOINTS.len()];
                let key = destination_entry::from_ipv4(nbo(ip), port).to_array();
                if *on {
                    let rc = unsafe { sim_map_update(cs("policy_map").as_ptr(), key.as_ptr() as *const libc::c_void, proxy_value.as_ptr() as *const libc::c_void) };
                    if rc != 0 {
                        continue; // map full (10 entries): the agent's insert fails too
                    }
                    policy.insert((nbo(ip), port));
                } else {
                    unsafe { sim_map_delete(cs("policy_map").as_ptr(), key.as_ptr() as *const libc::c_void) };
                    policy.remove(&(nbo(ip), port));
                }
                if !pending.is_empty() {
                    policy_changed_in_flight = true;
                }
            }
            Op::Begin { task, ep, udp } => {
                let ti = *task as usize % ntasks;
                let t = case.tasks[ti];
                // one connect at a time per thread; a thread also must not start a second one while another task index aliases it
                if pending.contains_key(&(ti as u8)) || pending.keys().any(|k| case.tasks[*k as usize].tgid == t.tgid && case.tasks[*k as usize].tid == t.tid) {
                    continue;
                }
                let (ip, port) = ENDPOINTS[*ep as usize % ENDPOINTS.len()];
                let proto = if *udp { IPPROTO_UDP } else { IPPROTO_TCP };
                let mut ctx = bpf_sock_addr { user_family: AF_INET, user_ip4: nbo(ip), user_ip6: [0; 4], user_port: port.to_be() as u32, family: AF_INET, type_: if *udp { 2 } else { 1 }, protocol: proto, msg_src_ip4: 0, msg_src_ip6: [0; 4], sk: 0 };
                let before = ctx;
                unsafe {
                    sim_set_task(t.tgid, t.tid, t.uid, t.gid);
                    let verdict = sim_run_connect4(&mut ctx);
                    if verdict != 1 {
                        return Outcome::fail("hook:connect-not-allowed-to-proceed", format!("step {}: connect4 returned {}", step, verdict));
                    }
                }
                let protected = !*udp && policy.contains(&(nbo(ip), port));
                let want_rewrite = protected && !skip.contains(&t.tgid);
                if protected { n_prot += 1 } else { n_unprot += 1 }
                let rewritten = ctx != before;
                if want_rewrite {
                    let mut want = before;
                    want.user_ip4 = nbo([127, 0, 0, 1]);
                    want.user_port = constants::PROXY_AGENT_PORT.to_be() as u32;
                    if ctx != want {
                        return Outcome::fail(
                            if rewritten { "hook:protected-connect-rewritten-to-wrong-address" } else { "hook:protected-connect-not-redirected" },
                            format!("step {} {:?} by {:?}: context after connect4 {:?}, expected {:?} (policy {:?}, skipped processes {:?})", step, op, t, ctx, want, policy, skip),
                        );
                    }
                } else if rewritten {
                    return Outcome::fail(
                        if skip.contains(&t.tgid) { "hook:agent-own-connect-touched" } else { "hook:unprotected-connect-touched" },
                        format!("step {} {:?} by {:?}: context changed from {:?} to {:?} (policy {:?}, skipped {:?})", step, op, t, before, ctx, policy, skip),
                    );
                }
                if want_rewrite {
                    aborted_threads.remove(&(t.tgid, t.tid));
                }
                pending.insert(ti as u8, Pending { ip: nbo(ip), port, rewritten: want_rewrite, udp: *udp, ctx_after: ctx });
                max_in_flight = max_in_flight.max(pending.len());
            }
            Op::Abort { task } => {
                let ti = (*task as usize % ntasks) as u8;
                if let Some(p) = pending.remove(&ti) {
                    if p.rewritten {
                        let t = case.tasks[ti as usize];
                        aborted_threads.insert((t.tgid, t.tid));
                    }
                }
            }
            Op::Finish { task, reuse } => {
                let ti = (*task as usize % ntasks) as u8;
                let p = match pending.remove(&ti) {
                    Some(p) => p,
                    None => continue,
                };
                if p.udp {
                    continue; // no tcp_connect for UDP
                }
                let t = case.tasks[ti as usize];
                let reused = *reuse && !stale_ports.is_empty();
                let sport = if reused {
                    stats.class("finish:source-port-with-a-stale-record");
                    stale_ports.remove(0)
                } else {
                    next_port += 1;
                    next_port - 1
                };
                unsafe {
                    sim_set_task(t.tgid, t.tid, t.uid, t.gid);
                    sim_run_kprobe(p.ctx_after.user_ip4, p.ctx_after.user_port as u16, sport, AF_INET as u16);
                }
                let stale = aborted_threads.contains(&(t.tgid, t.tid));
                if p.rewritten {
                    expect_records.insert(sport, (t, p.ip, p.port));
                    finished.push((sport, t, p.ip, p.port));
                } else if reused {
                    // an unredirected connect never reaches the agent; the earlier connection's record simply stays
                    stale_ports.push(sport);
                } else if stale {
                    // the statement does not say what a kernel-aborted connect leaves behind: counted, not asserted
                    aborted_threads.remove(&(t.tgid, t.tid));
                    stats.underspec();
                    stats.class("underspecified:connect-after-a-kernel-aborted-one");
                    let key = sock_addr_audit_key::from_source_port(sport).to_array();
                    unsafe { sim_map_delete(cs("audit_map").as_ptr(), key.as_ptr() as *const libc::c_void) };
                } else {
                    let key = sock_addr_audit_key::from_source_port(sport).to_array();
                    let policy_now = policy.contains(&(p.ip, p.port));
                    if let Some(v) = map_lookup("audit_map", &key) {
                        if policy_now && policy_changed_in_flight {
                            stats.underspec();
                            stats.class("underspecified:policy-changed-between-the-hooks");
                            unsafe { sim_map_delete(cs("audit_map").as_ptr(), key.as_ptr() as *const libc::c_void) };
                        } else {
                            return Outcome::fail(
                                if skip.contains(&t.tgid) { "hook:record-for-agent-own-connect" } else { "hook:record-for-unredirected-connect" },
                                format!("step {} {:?} by {:?}: audit record {:?} exists for source port {} although the connect to {}:{} was not redirected", step, op, t, v, sport, ip_to_string(p.ip), p.port),
                            );
                        }
                    }
                }
            }
            Op::Drop => {
                if finished.is_empty() {
                    continue;
                }
                let (sport, _, _, _) = finished.remove(0);
                stale_ports.push(sport);
                stats.class("drop:record-never-consumed");
            }
            Op::Accept => {
                if finished.is_empty() {
                    continue;
                }
                let (sport, t, ip, port) = finished.remove(0);
                expect_records.remove(&sport);
                let key = sock_addr_audit_key::from_source_port(sport).to_array();
                let raw = match map_lookup("audit_map", &key) {
                    Some(v) => v,
                    None => return Outcome::fail("hook:no-record-for-redirected-connect", format!("step {}: no audit record under the agent's key {:?} for the redirected connect of {:?} from source port {}", step, key, t, sport)),
                };
                // the agent's decode path (linux.rs lookup_audit)
                let v = sock_addr_audit_entry::from_array(raw);
                let entry = AuditEntry { logon_id: v.logon_id as u64, process_id: v.process_id, is_admin: v.is_root as i32, destination_ipv4: v.destination_ipv4, destination_port: v.destination_port as u16 };
                let want_ip = std::net::Ipv4Addr::from(ip.to_ne_bytes());
                if entry.logon_id != t.uid as u64 {
                    let sig = if entry.logon_id == t.gid as u64 { "record:caller-id-is-the-group-id-not-the-user-id" } else { "record:wrong-user-id" };
                    return Outcome::fail(sig, format!("step {}: record for {:?} states logon_id {} (uid {}, gid {})", step, t, entry.logon_id, t.uid, t.gid));
                }
                if entry.process_id != t.tgid {
                    return Outcome::fail("record:wrong-process-id", format!("step {}: record for {:?} states process_id {}", step, t, entry.process_id));
                }
                if (entry.is_admin == 1) != (t.uid == 0) {
                    return Outcome::fail("record:elevation-flag-does-not-follow-uid", format!("step {}: record for {:?} states is_admin {}", step, t, entry.is_admin));
                }
                if entry.destination_ipv4_addr() != want_ip || entry.destination_port_in_host_byte_order() != port {
                    return Outcome::fail("record:original-destination-decoded-wrongly", format!("step {}: decoded {}:{} expected {}:{}", step, entry.destination_ipv4_addr(), entry.destination_port_in_host_byte_order(), want_ip, port));
                }
                unsafe { sim_map_delete(cs("audit_map").as_ptr(), key.as_ptr() as *const libc::c_void) };
            }
        }
    }
    // every record still expected must be there, and nothing else
    for (sport, (t, _, _)) in &expect_records {
        let key = sock_addr_audit_key::from_source_port(*sport).to_array();
        if map_lookup("audit_map", &key).is_none() {
            return Outcome::fail("hook:no-record-for-redirected-connect", format!("end of history: record for {:?} source port {} missing", t, sport));
        }
    }
    let count = unsafe { sim_map_count(cs("audit_map").as_ptr()) } as usize;
    if count != expect_records.len() {
        return Outcome::fail("hook:unexpected-extra-audit-records", format!("{} records in the audit map, {} expected", count, expect_records.len()));
    }
    let uid_ne_gid = case.tasks.iter().any(|t| t.uid != t.gid);
    if max_in_flight >= 2 && n_prot >= 1 && n_unprot >= 1 && uid_ne_gid {
        stats.nontrivial_hash(h64(case));
    }
    stats.class_n("connects:protected", n_prot as u64);
    stats.class_n("connects:unprotected", n_unprot as u64);
    stats.sample(|| serde_json::to_value(case).unwrap());
    Outcome::Pass
}

#[derive(Clone, Debug, Serialize, Deserialize, Hash)]
pub struct IpCase {
    pub ip: u32,
}

pub fn eval_ip(c: &IpCase, stats: &mut Stats) -> Outcome {
    let s = ip_to_string(c.ip);
    let b = c.ip.to_ne_bytes();
    let want = format!("{}.{}.{}.{}", b[0], b[1], b[2], b[3]);
    if s != want {
        return Outcome::fail("encoding:ip_to_string", format!("{:#x} -> {} expected {}", c.ip, s, want));
    }
    if string_to_ip(&s) != c.ip {
        return Outcome::fail("encoding:string_to_ip-round-trip", format!("{} -> {:#x} expected {:#x}", s, string_to_ip(&s), c.ip));
    }
    stats.class("ip-round-trip");
    Outcome::Pass
}

