//! C07 — attribution is single-use: the record is consumed at accept; a connection never inherits
//! another connection's identity, whatever the history (port reuse, keep-alive, overwrite, concurrency).

use crate::gen::{GAssign, GDoc, GIdent, GPriv, GRole};
use crate::report::{h64, Stats};
use crate::rig::{Conn, DestSel, Rec, Rig};
use crate::runner::Outcome;
use azure_proxy_agent::redirector::verif_hooks::{self, TraceOp};
use proptest::prelude::*;
use serde::{Deserialize, Serialize};
use std::collections::BTreeMap;
use std::time::Duration;

pub const IDENTS: u8 = 5;

#[derive(Clone, Debug, Serialize, Deserialize, Hash)]
pub enum Op {
    /// open a connection in `slot`; `reuse_of`: bind the port last used by that slot (its connection is reset first)
    /// `dead`: the record names a destination nobody listens on, so the proxy's own connect to the host fails at accept time
    /// `idle`: no request is sent right after connecting (the record must be consumed at accept all the same)
    Open { slot: u8, reuse_of: Option<u8>, record: Option<u8>, #[serde(default)] dead: bool, #[serde(default)] idle: bool,
        /// the client resets the connection right after the handshake, before the listener gets to it: its record is consumed all the same
        #[serde(default)] abort: bool },
    /// `hang_up`: the host closes its connection with the proxy right after answering this request (unannounced);
    /// `other_host`: the Host header names another endpoint than the one the kernel recorded
    Request { slot: u8, only: u8, #[serde(default)] hang_up: bool, #[serde(default)] other_host: bool },
    /// the kernel writes a new record for the slot's port while its connection is still open
    Overwrite { slot: u8, ident: u8 },
    Close { slot: u8 },
    Batch { idents: Vec<u8> },
    /// that many idle connections (no record, no request) are held open while one attributed connection is opened, used and
    /// closed: a listener under load must still attribute (or refuse) every connection it accepts
    Flood { n: u16, ident: u8 },
    /// two attributed connections of an elevated caller, one after the other, whose records name DIFFERENT endpoints of the same
    /// host address (WireServer 168.63.129.16:80 / HostGAPlugin 168.63.129.16:32526; bit 0 of `order`: which comes first); the
    /// first one sends `first_requests` requests (0 = it goes away without having sent anything) and is closed; every request of
    /// the second must arrive at ITS recorded endpoint
    Pair { order: u8, first_requests: u8 },
}

#[derive(Clone, Debug, Serialize, Deserialize, Hash)]
pub struct Case {
    pub ops: Vec<Op>,
}

fn op() -> impl Strategy<Value = Op> {
    prop_oneof![
        20 => (0u8..4, prop::option::weighted(0.55, 0u8..4), prop::option::weighted(0.6, 0u8..IDENTS), prop::bool::weighted(0.15), prop::bool::weighted(0.25), prop::bool::weighted(0.12)).prop_map(|(slot, reuse_of, record, dead, idle, abort)| Op::Open { slot, reuse_of, record, dead, idle, abort }),
        30 => (0u8..4, 0u8..IDENTS, prop::bool::weighted(0.2), prop::bool::weighted(0.5)).prop_map(|(slot, only, hang_up, other_host)| Op::Request { slot, only, hang_up, other_host }),
        10 => (0u8..4, 0u8..IDENTS).prop_map(|(slot, ident)| Op::Overwrite { slot, ident }),
        10 => (0u8..4).prop_map(|slot| Op::Close { slot }),
        5 => prop::collection::vec(0u8..IDENTS, 2..9).prop_map(|idents| Op::Batch { idents }),
        1 => (prop_oneof![3 => 1030u16..1200, 1 => 200u16..1030], 0u8..IDENTS).prop_map(|(n, ident)| Op::Flood { n, ident }),
        6 => (0u8..4, prop_oneof![2 => Just(0u8), 1 => Just(1u8), 1 => Just(2u8)]).prop_map(|(order, first_requests)| Op::Pair { order, first_requests }),
    ]
}

pub fn strategy() -> impl Strategy<Value = Case> {
    prop::collection::vec(op(), 1..24).prop_map(|ops| Case { ops })
}

pub const RULE: &str = "generator: histories (1-23 ops) over 4 connection slots and 5 identities: Open{fresh port | the port last used by a slot (that connection is reset with SO_LINGER 0 first and the new socket binds the same port), a quarter of the opens stay idle (no request follows the connect: the record must be consumed at accept all the same, within 5 s), 12% are reset by the client right after the handshake (same expectation), in 15% of the attributed opens the record names an unreachable destination so that the proxy's own connect to the host fails at accept time, with a record for identity k or without}, Request{slot, /only/<j>; 20%: the host closes its connection with the proxy right after answering; 50%: the Host header names another endpoint than the recorded one}, Overwrite{slot's port gets a new record while its connection is open}, Close, Batch{2-8 connections opened concurrently from threads, each with its own identity}, Flood{200-1199 idle connections are held open while one attributed connection is opened, used and closed}, Pair{two connections of an elevated caller, one after the other, whose records name the two endpoints of one host address (WireServer / HostGAPlugin), the first one sending 0-2 requests before it is closed (FIN or reset)}. Identities differ in uid (generated passwd), process (helper executables) and elevation; the IMDS rule set (enforce, default deny) grants /only/<k> to identity k only, so every decision identifies whose claims were used, and the forwarded claims header gives the elevation bit. oracle: no request ever arrives at a host other than the one the kernel recorded for its connection (after a host hang-up a 5xx without relay is accepted); model port -> pending record; at accept the record moves to the connection and leaves the map (trace shows lookup then remove; the stand-in map has no entry for the port afterwards); every request on a connection is decided with that connection's identity regardless of later overwrites; a connection from a reused port without a fresh record gets 421 on every request. non-trivial: history with a port reuse without a fresh record after an attributed connection, or >= 2 requests on one connection with an overwrite in between, or a batch >= 4; distinct by hash of the history.";

pub fn ident_rec(k: u8) -> Rec {
    Rec { uid_sel: k % IDENTS, helper_sel: k % IDENTS, is_root: k % IDENTS == 0, dest: DestSel::Imds }
}

pub fn rules(rig: &Rig) -> GDoc {
    let mut privileges = Vec::new();
    let mut roles = Vec::new();
    let mut identities = Vec::new();
    let mut assignments = Vec::new();
    for k in 0..IDENTS {
        let c = rig.claims_of(&ident_rec(k));
        privileges.push(GPriv { name: format!("p{}", k), path: format!("/only/{}", k), query: None });
        roles.push(GRole { name: format!("r{}", k), privileges: vec![format!("p{}", k)] });
        identities.push(GIdent { name: format!("i{}", k), user: Some(c.user.clone()), group: None, exe: Some(c.exe.clone()), proc_name: None });
        assignments.push(GAssign { role: format!("r{}", k), identities: vec![format!("i{}", k)] });
    }
    GDoc { mode: "enforce".into(), default_access: "deny".into(), id: "c07".into(), rules_present: true, privileges: Some(privileges), roles: Some(roles), identities: Some(identities), assignments: Some(assignments) }
}

struct Slot {
    /// the host has closed the proxy's connection for this client connection: a relay may fail (5xx), it must never go elsewhere
    upstream_closed: bool,
    /// the record's destination is unreachable: requests are answered with an error status, nothing is relayed
    dead: bool,
    conn: Option<Conn>,
    port: u16,
    identity: Option<u8>,
    had_attributed_before: bool,
    requests_since_open: u32,
    overwritten_since_open: bool,
}

fn request_on_dead(rig: &Rig, conn: &mut Conn, only: u8) -> Result<(), (String, String)> {
    let _ = rig.mock.take_requests();
    let target = format!("/only/{}", only % IDENTS);
    let wire = crate::rawhttp::request_head("GET", &target, &[("Host".into(), b"10.99.0.2".to_vec())]);
    conn.send(&wire).map_err(|e| ("attribution:client-send-failed".to_string(), e.to_string()))?;
    let resp = conn.read("GET", Duration::from_secs(20)).map_err(|e| ("attribution:no-response".to_string(), format!("{} on port {}: {:?}", target, conn.port, e)))?;
    if (200..300).contains(&resp.status) || !rig.mock.take_requests().is_empty() {
        return Err(("attribution:request-to-unreachable-destination-relayed".into(), format!("status {} for {} on port {}", resp.status, target, conn.port)));
    }
    Ok(())
}

fn request_on(rig: &Rig, conn: &mut Conn, identity: Option<u8>, only: u8) -> Result<(), (String, String)> {
    request_on_opts(rig, conn, identity, only, false, false, false)
}

fn request_on_opts(rig: &Rig, conn: &mut Conn, identity: Option<u8>, only: u8, hang_up: bool, other_host: bool, upstream_closed: bool) -> Result<(), (String, String)> {
    let _ = rig.mock.take_requests();
    let target = format!("/only/{}", only % IDENTS);
    let mut hs: Vec<(String, Vec<u8>)> = vec![("Host".into(), if other_host { b"10.99.0.1:8080".to_vec() } else { b"169.254.169.254".to_vec() }), ("Metadata".into(), b"true".to_vec())];
    if hang_up {
        hs.push(("x-host-hangs-up".into(), b"1".to_vec()));
    }
    let wire = crate::rawhttp::request_head("GET", &target, &hs);
    conn.send(&wire).map_err(|e| ("attribution:client-send-failed".to_string(), e.to_string()))?;
    let resp = conn.read("GET", Duration::from_secs(20)).map_err(|e| ("attribution:no-response".to_string(), format!("{} on port {}: {:?}", target, conn.port, e)))?;
    let seen = rig.mock.take_requests();
    if let Some(r) = seen.iter().find(|r| r.listener != "imds") {
        return Err(("attribution:request-delivered-to-another-destination".into(), format!("{} on the connection recorded for 169.254.169.254:80 (port {}) arrived at the '{}' host (Host header {:?})", target, conn.port, r.listener, r.head.get("host").map(|v| String::from_utf8_lossy(v).to_string()))));
    }
    if upstream_closed && identity.map(|k| only % IDENTS == k).unwrap_or(false) && (500..600).contains(&resp.status) && seen.is_empty() {
        // the host has hung up on this connection's upstream leg: an error status without any relay is all the proxy can do
        return Ok(());
    }
    match identity {
        None => {
            if resp.status != 421 {
                return Err(("attribution:unattributed-connection-not-refused".into(), format!("status {} for {} on a connection without a record (port {})", resp.status, target, conn.port)));
            }
            if !seen.is_empty() {
                return Err(("attribution:unattributed-connection-relayed".into(), format!("{} relayed from port {}", target, conn.port)));
            }
        }
        Some(k) => {
            if only % IDENTS == k {
                if resp.status != 200 || seen.len() != 1 {
                    return Err(("attribution:own-identity-not-used".into(), format!("connection of identity {} on port {}: {} -> status {}, {} relayed", k, conn.port, target, resp.status, seen.len())));
                }
                let claims = seen[0].head.get("x-ms-azure-host-claims").map(|v| String::from_utf8_lossy(v).to_string()).unwrap_or_default();
                let want = format!("{{ \"isRoot\": \"{}\"}}", k == 0);
                if claims != want {
                    return Err(("attribution:claims-header-of-another-identity".into(), format!("identity {} port {}: host saw '{}' expected '{}'", k, conn.port, claims, want)));
                }
            } else if resp.status != 403 || !seen.is_empty() {
                return Err(("attribution:request-evaluated-with-another-identity".into(), format!("connection of identity {} on port {}: {} -> status {} ({} relayed); only identity {} may access it", k, conn.port, target, resp.status, seen.len(), only % IDENTS)));
            }
        }
    }
    Ok(())
}

pub fn eval(rig: &Rig, case: &Case, stats: &mut Stats) -> Outcome {
    let doc = rules(rig);
    rig.set_rules(None, Some(&doc), None);
    rig.set_key(None);
    verif_hooks::clear();
    rig.mock.set_responder(Box::new(|r| {
        let mut s = crate::mockhost::ResponseSpec::ok(b"mock");
        s.close_after = r.head.get("x-host-hangs-up").is_some();
        s
    }));
    let mut slots: Vec<Slot> = (0..4).map(|_| Slot { upstream_closed: false, dead: false, conn: None, port: 0, identity: None, had_attributed_before: false, requests_since_open: 0, overwritten_since_open: false }).collect();
    // model of the kernel map: port -> identity of the pending record
    let mut pending: BTreeMap<u16, u8> = BTreeMap::new();
    let mut nontrivial = false;
    for (step, op) in case.ops.iter().enumerate() {
        match op {
            Op::Open { slot, reuse_of, record, dead, idle, abort } => {
                let s = *slot as usize % 4;
                if let Some(c) = slots[s].conn.take() {
                    crate::rawhttp::close_abortive(c.stream);
                }
                let mut port = 0u16;
                let mut reused_attributed = false;
                if let Some(r) = reuse_of {
                    let r = *r as usize % 4;
                    if slots[r].port != 0 {
                        if let Some(c) = slots[r].conn.take() {
                            crate::rawhttp::close_abortive(c.stream);
                        }
                        port = slots[r].port;
                        reused_attributed = slots[r].had_attributed_before;
                        slots[r].identity = None;
                    }
                }
                if port != 0 {
                    stats.class("open:reused-port");
                    // the port can only be reused once every connection from it is gone
                    for other in slots.iter_mut() {
                        if other.port == port {
                            if let Some(c) = other.conn.take() {
                                crate::rawhttp::close_abortive(c.stream);
                            }
                            other.identity = None;
                        }
                    }
                    // give the listener a moment to see the reset of the old connection
                    std::thread::sleep(Duration::from_millis(2));
                }
                let _ = verif_hooks::take_trace();
                // bind, then let "the kernel" write the record, then connect (as the two hook points do)
                let (fd, bound) = match crate::rawhttp::bind_local(port) {
                    Ok(x) => x,
                    Err(e) => {
                        if port != 0 {
                            stats.class("open:port-not-reusable-yet(skipped)");
                            continue;
                        }
                        return Outcome::fail("rig:cannot-bind", e);
                    }
                };
                let dead = *dead && record.is_some();
                if let Some(k) = record {
                    let mut rec = ident_rec(*k);
                    if dead {
                        rec.dest = crate::rig::DestSel::Dead;
                        stats.class("open:record-with-unreachable-destination");
                    }
                    verif_hooks::insert(bound, rig.entry_of(&rec));
                    pending.insert(bound, *k % IDENTS);
                }
                let conn = match crate::rawhttp::connect_fd(fd, [127, 0, 0, 1], 3080) {
                    Ok(stream) => Conn { stream, reader: crate::rawhttp::MsgReader::new(), port: bound },
                    Err(e) => {
                        if port != 0 {
                            // the kernel may still hold the old 4-tuple for an instant: not a verdict (the record stays pending, as in the model)
                            stats.class("open:port-not-reusable-yet(skipped)");
                            continue;
                        }
                        return Outcome::fail("rig:cannot-open-connection", e);
                    }
                };
                let p = conn.port;
                let identity = pending.remove(&p);
                if port != 0 && identity.is_none() && reused_attributed {
                    stats.class("open:reused-port-without-fresh-record-after-attributed-connection");
                    nontrivial = true;
                }
                slots[s] = Slot { upstream_closed: false, dead, conn: Some(conn), port: p, identity, had_attributed_before: identity.is_some(), requests_since_open: 0, overwritten_since_open: false };
                // first request: also proves that accept processing is over
                let mut pre_trace: Vec<TraceOp> = Vec::new();
                if *abort {
                    // reset at once: the listener finds a dead connection in its queue
                    if let Some(c) = slots[s].conn.take() {
                        crate::rawhttp::close_abortive(c.stream);
                    }
                    stats.class("open:reset-by-the-client-before-the-listener-handled-it");
                }
                if *idle || *abort {
                    // an idle connection: accept processing has to finish on its own (no request will ever prove it):
                    // wait until the listener has looked the port up (and, for an attributed one, removed the record)
                    stats.class("open:idle-connection-without-a-first-request");
                    let t0 = std::time::Instant::now();
                    loop {
                        pre_trace.extend(verif_hooks::take_trace());
                        let looked = pre_trace.iter().any(|t| matches!(t, TraceOp::Lookup { port, .. } if *port == p));
                        let removed = pre_trace.iter().any(|t| matches!(t, TraceOp::Remove { port, .. } if *port == p));
                        if (looked && (identity.is_none() || removed)) || t0.elapsed() > Duration::from_millis(5000) {
                            break;
                        }
                        std::thread::sleep(Duration::from_millis(1));
                    }
                } else {
                    let probe = identity.unwrap_or(0);
                    let r = if dead { request_on_dead(rig, slots[s].conn.as_mut().unwrap(), probe) } else { request_on(rig, slots[s].conn.as_mut().unwrap(), identity, probe) };
                    if let Err((sig, d)) = r {
                        return Outcome::fail(sig, format!("step {} {:?}: {}", step, op, d));
                    }
                    slots[s].requests_since_open += 1;
                }
                // trace and map
                let trace: Vec<TraceOp> = pre_trace.into_iter().chain(verif_hooks::take_trace()).filter(|t| matches!(t, TraceOp::Lookup { port, .. } | TraceOp::Remove { port, .. } if *port == p)).collect();
                let want: Vec<TraceOp> = if identity.is_some() { vec![TraceOp::Lookup { port: p, found: true }, TraceOp::Remove { port: p, found: true }] } else { vec![TraceOp::Lookup { port: p, found: false }] };
                if trace != want {
                    return Outcome::fail("attribution:record-not-consumed-at-accept", format!("step {} {:?}: port {} trace {:?}, expected {:?}", step, op, p, trace, want));
                }
                if verif_hooks::contains(p) {
                    return Outcome::fail("attribution:record-left-in-map-after-accept", format!("step {} {:?}: port {} still has a record after its connection was accepted", step, op, p));
                }
            }
            Op::Request { slot, only, hang_up, other_host } => {
                let s = *slot as usize % 4;
                let identity = slots[s].identity;
                let dead = slots[s].dead;
                let closed = slots[s].upstream_closed;
                if closed {
                    stats.class("request:after-the-host-hung-up-on-this-connection");
                }
                // after a hang-up, a request that names another endpoint is one the caller is authorised for (otherwise it is
                // refused before any relay is attempted and says nothing about where it would have gone)
                let only = &(if closed && *other_host { identity.unwrap_or(*only) } else { *only });
                if let Some(conn) = slots[s].conn.as_mut() {
                    let r = if dead { request_on_dead(rig, conn, *only) } else { request_on_opts(rig, conn, identity, *only, *hang_up, *other_host, closed) };
                    if *hang_up && !dead {
                        slots[s].upstream_closed = true;
                        // let the proxy notice that its host connection is gone
                        std::thread::sleep(Duration::from_millis(3));
                    }
                    if let Err((sig, d)) = r {
                        return Outcome::fail(sig, format!("step {} {:?}: {}", step, op, d));
                    }
                    slots[s].requests_since_open += 1;
                    if slots[s].overwritten_since_open && slots[s].requests_since_open >= 2 {
                        nontrivial = true;
                        stats.class("request:after-overwrite-on-open-connection");
                    }
                }
            }
            Op::Overwrite { slot, ident } => {
                let s = *slot as usize % 4;
                if slots[s].conn.is_some() {
                    verif_hooks::insert(slots[s].port, rig.entry_of(&ident_rec(*ident)));
                    pending.insert(slots[s].port, *ident % IDENTS);
                    slots[s].overwritten_since_open = true;
                }
            }
            Op::Close { slot } => {
                let s = *slot as usize % 4;
                if let Some(c) = slots[s].conn.take() {
                    crate::rawhttp::close_abortive(c.stream);
                }
            }
            Op::Pair { order, first_requests } => {
                stats.class(if *first_requests == 0 { "pair:first-connection-goes-away-without-a-request" } else { "pair:two-endpoints-of-one-host-address" });
                let dests = if order & 1 == 0 { [crate::rig::DestSel::WireServer, crate::rig::DestSel::GaPlugin] } else { [crate::rig::DestSel::GaPlugin, crate::rig::DestSel::WireServer] };
                for (k, dest) in dests.iter().enumerate() {
                    let rec = Rec { uid_sel: 0, helper_sel: 0, is_root: true, dest: *dest };
                    let mut conn = match rig.open(Some(rig.entry_of(&rec)), 0) {
                        Ok(c) => c,
                        Err(e) => return Outcome::fail("rig:cannot-open-connection", e),
                    };
                    pending.remove(&conn.port);
                    let n_req = if k == 0 { *first_requests } else { 2 };
                    for j in 0..n_req {
                        let _ = rig.mock.take_requests();
                        let target = format!("/pair/{}/{}", k, j);
                        let wire = crate::rawhttp::request_head("GET", &target, &[("Host".into(), b"168.63.129.16".to_vec())]);
                        if let Err(e) = conn.send(&wire) {
                            return Outcome::fail("attribution:client-send-failed", e.to_string());
                        }
                        let resp = match conn.read("GET", Duration::from_secs(20)) {
                            Ok(r) => r,
                            Err(e) => return Outcome::fail("attribution:no-response", format!("step {} {:?}: {} on port {}: {:?}", step, op, target, conn.port, e)),
                        };
                        let seen = rig.mock.take_requests();
                        let want = dest.listener().unwrap_or("");
                        if let Some(r) = seen.iter().find(|r| r.listener != want) {
                            return Outcome::fail("attribution:request-delivered-to-another-destination", format!("step {} {:?}: {} on the connection recorded for {:?} (port {}) arrived at the '{}' host", step, op, target, dest, conn.port, r.listener));
                        }
                        if resp.status != 200 || seen.len() != 1 {
                            return Outcome::fail("attribution:own-identity-not-used", format!("step {} {:?}: elevated caller, {} -> status {}, {} relayed to {}", step, op, target, resp.status, seen.len(), want));
                        }
                    }
                    if n_req == 0 {
                        // accept processing has to finish on its own
                        std::thread::sleep(Duration::from_millis(15));
                    }
                    // the first connection ends in an orderly way (FIN) in half of the cases, with a reset in the others
                    if order & 2 == 0 {
                        let _ = conn.stream.shutdown(std::net::Shutdown::Both);
                        drop(conn);
                    } else {
                        crate::rawhttp::close_abortive(conn.stream);
                    }
                    std::thread::sleep(Duration::from_millis(5));
                }
                nontrivial = true;
            }
            Op::Flood { n, ident } => {
                stats.class(if *n >= 1024 { "flood:>=1024-idle-connections-held-open" } else { "flood:<1024-idle-connections-held-open" });
                let mut idle: Vec<Conn> = Vec::new();
                for _ in 0..*n {
                    match rig.open(None, 0) {
                        Ok(c) => {
                            // the kernel may hand out the port of a closed slot whose record is still pending: this connection
                            // consumes that record (model and map agree again)
                            pending.remove(&c.port);
                            idle.push(c);
                        }
                        Err(_) => break,
                    }
                }
                let k = *ident % IDENTS;
                let _ = verif_hooks::take_trace();
                let flood_port = std::cell::Cell::new(0u16);
                let r = (|| -> Result<(), (String, String)> {
                    let mut conn = rig.open(Some(rig.entry_of(&ident_rec(k))), 0).map_err(|e| ("rig:cannot-open-connection".to_string(), e))?;
                    let p = conn.port;
                    flood_port.set(p);
                    request_on(rig, &mut conn, Some(k), k)?;
                    request_on(rig, &mut conn, Some(k), (k + 1) % IDENTS)?;
                    crate::rawhttp::close_abortive(conn.stream);
                    if verif_hooks::contains(p) {
                        return Err(("attribution:record-left-in-map-after-accept".to_string(), format!("port {} while {} idle connections were open", p, idle.len())));
                    }
                    Ok(())
                })();
                if flood_port.get() != 0 {
                    pending.remove(&flood_port.get());
                }
                for c in idle {
                    crate::rawhttp::close_abortive(c.stream);
                }
                std::thread::sleep(Duration::from_millis(30));
                let _ = verif_hooks::take_trace();
                let _ = rig.mock.take_requests();
                if let Err((sig, d)) = r {
                    return Outcome::fail(sig, format!("step {} {:?} ({} idle connections open): {}", step, op, n, d));
                }
                nontrivial = true;
            }
            Op::Batch { idents } => {
                if idents.len() >= 4 {
                    nontrivial = true;
                    stats.class("batch:>=4-concurrent-accepts");
                }
                let results: Vec<Result<u16, (String, String)>> = std::thread::scope(|sc| {
                    let hs: Vec<_> = idents
                        .iter()
                        .map(|k| {
                            let k = *k % IDENTS;
                            sc.spawn(move || -> Result<u16, (String, String)> {
                                let mut conn = rig.open(Some(rig.entry_of(&ident_rec(k))), 0).map_err(|e| ("rig:cannot-open-connection".to_string(), e))?;
                                // concurrent requests share the mock's request log: check statuses only
                                for only in [k, (k + 1) % IDENTS, k] {
                                    let target = format!("/only/{}", only);
                                    let wire = crate::rawhttp::request_head("GET", &target, &[("Host".into(), b"h".to_vec()), ("x-batch-ident".into(), k.to_string().into_bytes())]);
                                    conn.send(&wire).map_err(|e| ("attribution:client-send-failed".to_string(), e.to_string()))?;
                                    let r = conn.read("GET", Duration::from_secs(20)).map_err(|e| ("attribution:no-response".to_string(), format!("{:?}", e)))?;
                                    let want = if only == k { 200 } else { 403 };
                                    if r.status != want {
                                        return Err(("attribution:concurrent-accept-mixed-identities".to_string(), format!("connection of identity {} (port {}): {} -> {} expected {}", k, conn.port, target, r.status, want)));
                                    }
                                }
                                let p = conn.port;
                                crate::rawhttp::close_abortive(conn.stream);
                                if verif_hooks::contains(p) {
                                    return Err(("attribution:record-left-in-map-after-accept".to_string(), format!("port {}", p)));
                                }
                                Ok(p)
                            })
                        })
                        .collect();
                    hs.into_iter().map(|h| h.join().unwrap_or_else(|_| Err(("rig:client-thread-panicked".into(), String::new())))).collect()
                });
                // the elevation claim the host saw for each batch request must be the identity's own
                for r in rig.mock.take_requests() {
                    if let Some(k) = r.head.get("x-batch-ident").and_then(|v| String::from_utf8_lossy(v).parse::<u8>().ok()) {
                        let claims = r.head.get("x-ms-azure-host-claims").map(|v| String::from_utf8_lossy(v).to_string()).unwrap_or_default();
                        let want = format!("{{ \"isRoot\": \"{}\"}}", k == 0);
                        if claims != want {
                            return Outcome::fail("attribution:claims-header-of-another-identity", format!("batch identity {}: host saw '{}'", k, claims));
                        }
                    }
                }
                for r in results {
                    match r {
                        Err((sig, d)) => return Outcome::fail(sig, format!("step {} {:?}: {}", step, op, d)),
                        // (a batch connection that got the port of a closed slot replaced that port's pending record by its own)
                        Ok(p) => {
                            pending.remove(&p);
                        }
                    }
                }
                let _ = verif_hooks::take_trace();
            }
        }
    }
    for s in slots.iter_mut() {
        if let Some(c) = s.conn.take() {
            crate::rawhttp::close_abortive(c.stream);
        }
    }
    verif_hooks::clear();
    if nontrivial {
        stats.nontrivial_hash(h64(case));
    }
    stats.sample(|| serde_json::json!({"history": case.ops}));
    Outcome::Pass
}
