//! C09 — agent state converges to the host's latest secure-channel status.

use crate::gen::{self, GDoc};
use crate::keeper::{normalise, KeeperRig, Snapshot};
use crate::keyhost::{Fault, StatusDoc, Step};
use crate::report::{h64, Stats};
use crate::runner::Outcome;
use azure_proxy_agent::redirector::verif_hooks;
use proptest::prelude::*;
use serde::{Deserialize, Serialize};
use std::time::Duration;

#[derive(Clone, Debug, Serialize, Deserialize, Hash)]
pub enum HStep {
    /// a new status document, optionally with acquire/attest faults in front of the convergence and a key rotation
    Doc { doc: StatusDoc, rotate: bool, acquire_faults: Vec<Fault>, attest_faults: Vec<Fault>, #[serde(default)] foreign: bool },
    /// the status request itself fails / is invalid for a few polls: nothing may change
    StatusFailure { fault: Fault },
}

#[derive(Clone, Debug, Serialize, Deserialize, Hash)]
pub struct Case {
    pub first: StatusDoc,
    pub steps: Vec<HStep>,
}

fn sane_doc() -> impl Strategy<Value = GDoc> {
    gen::gdoc().prop_map(crate::props::c11::sanitize_doc)
}

pub fn status_doc() -> impl Strategy<Value = StatusDoc> {
    prop_oneof![
        3 => prop::sample::select(vec!["disabled", "wireserver", "wireserverandimds", "Disabled", "WireServer", "WireServerAndImds", "WIRESERVER"]).prop_map(|s| StatusDoc::V1 { state: s.to_string() }),
        7 => (prop::bool::weighted(0.8), prop::option::weighted(0.75, sane_doc()), prop::option::weighted(0.75, sane_doc()), prop::option::weighted(0.4, sane_doc()), prop::bool::weighted(0.93))
            .prop_map(|(enabled, ws, imds, hostga, rules_member)| StatusDoc::V2 { enabled, ws, imds, hostga, rules_member }),
    ]
}

pub fn fault() -> impl Strategy<Value = Fault> {
    prop_oneof![
        3 => (prop::sample::select(vec![500u16, 503, 404, 410, 429, 400]), prop::sample::select(vec!["", "internal error", "{\"error\":\"x\"}", "<html>busy</html>"])).prop_map(|(c, b)| Fault::Status(c, b.to_string(), "text/plain".to_string())),
        2 => prop::sample::select(vec!["", "not json", "{\"version\":", "[]", "{}", "null"]).prop_map(|b| Fault::Garbage(b.to_string(), "application/json; charset=utf-8".to_string())),
        1 => Just(Fault::InvalidDoc),
        2 => (0u8..4).prop_map(Fault::InvalidDocKind),
        3 => (prop::sample::select(vec![300u16, 400, 401, 403, 404, 410, 429, 500, 503]), 0u8..4).prop_map(|(c, k)| Fault::RefusedWithValidDoc(c, k)),
        1 => Just(Fault::Reset),
    ]
}

fn hstep() -> impl Strategy<Value = HStep> {
    prop_oneof![
        7 => (status_doc(), prop_oneof![7 => Just((false, false)), 2 => Just((true, false)), 2 => Just((true, true))], prop::collection::vec(fault(), 0..3), prop::collection::vec(fault(), 0..3), prop::bool::weighted(0.6))
            .prop_map(|(doc, (rotate, foreign), acquire_faults, attest_faults, no_faults)| HStep::Doc {
                doc,
                rotate,
                foreign,
                acquire_faults: if no_faults { vec![] } else { acquire_faults },
                // an attestation answered 200 is a success whatever its body: only error statuses and resets are failures
                attest_faults: if no_faults { vec![] } else { attest_faults.into_iter().enumerate().filter(|(_, f)| matches!(f, Fault::Status(..) | Fault::Reset)).map(|(i, f)| if i == 0 && f == Fault::Reset { Fault::ResetAfterCommit } else { f }).collect() },
            }),
        3 => fault().prop_map(|fault| HStep::StatusFailure { fault }),
    ]
}

pub fn strategy() -> impl Strategy<Value = Case> {
    (status_doc(), prop::collection::vec(hstep(), 1..8)).prop_map(|(first, steps)| Case { first, steps })
}

pub const RULE: &str = "generator: histories of 2-8 steps served by the reference secure-channel host to the real KeyKeeper (5 ms poll interval): status documents of protocol version 1.0 (secureChannelState in any letter case) or 2.0 (secureChannelEnabled, per-endpoint rule sets absent or generated as in C02 with id = hash of content, authorizationRules member sometimes absent), optional key rotation (the host forgets its latched key, or names a latched key this guest never stored), 0-2 failing acquire and attest calls (error statuses with bodies, garbage bodies, connection resets) before they succeed, and status-failure steps (error status / not JSON / JSON failing validation / a refusal code carrying a valid document of its own / reset). A step takes effect at a poll boundary; the snapshot is taken after the host has answered two complete polls under it with no scripted fault left. oracle: after a stable non-failing step the agent's rules per endpoint equal the flattening of the latest document's item (or none), rule ids equal the document's, 'disabled' is reported iff the reference channel state is Disabled and then no key is held, otherwise the key is the one the host latched with the value it issued; when the reference channel state changed, the last three redirect-policy updates are (wireserver, imds, hostga) = (mode != disabled); after a status-failure step every observable equals the previous snapshot and no policy update happened; after every converged step with a key the agent's own WireServer and IMDS clients make a signed request each and the host verifies it under the key registered for the announced id. non-trivial: history with >= 1 rule replacement or removal, >= 1 enabled<->disabled flip and >= 1 failure step followed by recovery; distinct by hash of the history.";

#[derive(Clone, Debug, PartialEq, Eq)]
pub enum RefState {
    Disabled,
    V1(String),
    V2(String, String),
}

fn mode_of(item: &Option<GDoc>) -> String {
    match item {
        None => "disabled".into(),
        Some(d) => {
            let m = d.mode.to_lowercase();
            if m == "audit" || m == "enforce" {
                m
            } else {
                "disabled".into()
            }
        }
    }
}

/// (reference state, (ws, imds, hostga) interception, underspecified)
pub fn ref_state(doc: &StatusDoc) -> (RefState, (bool, bool, bool), bool) {
    match doc {
        StatusDoc::V1 { state } => {
            let s = state.to_lowercase();
            // 1.0: WireServer is enforced for wireserver/wireserverandimds and audited otherwise; IMDS likewise: never "disabled"
            if s == "disabled" {
                (RefState::Disabled, (true, true, true), false)
            } else {
                (RefState::V1(s), (true, true, true), false)
            }
        }
        StatusDoc::V2 { enabled, ws, imds, rules_member, .. } => {
            let (mw, mi) = (mode_of(ws), mode_of(imds));
            let intercept = if *rules_member { (mw != "disabled", mi != "disabled", mw != "disabled") } else { (false, false, false) };
            if !*enabled {
                (RefState::Disabled, intercept, false)
            } else if !*rules_member {
                // enabled without an authorizationRules member: the statement does not say; counted, not asserted
                (RefState::Disabled, intercept, true)
            } else {
                (RefState::V2(mw, mi), intercept, false)
            }
        }
    }
}

fn expected_rules(doc: &StatusDoc) -> ([serde_json::Value; 3], [String; 3]) {
    let j = |d: &Option<GDoc>| match d {
        Some(x) => normalise(serde_json::to_value(crate::agent::to_computed(x)).unwrap()),
        None => serde_json::Value::Null,
    };
    let id = |d: &Option<GDoc>| d.as_ref().map(|x| x.id.clone()).unwrap_or_default();
    match doc {
        StatusDoc::V1 { .. } => ([serde_json::Value::Null, serde_json::Value::Null, serde_json::Value::Null], [String::new(), String::new(), String::new()]),
        StatusDoc::V2 { ws, imds, hostga, rules_member, .. } => {
            if *rules_member {
                ([j(ws), j(imds), j(hostga)], [id(ws), id(imds), id(hostga)])
            } else {
                ([serde_json::Value::Null, serde_json::Value::Null, serde_json::Value::Null], [String::new(), String::new(), String::new()])
            }
        }
    }
}

pub fn check_converged(rig: &KeeperRig, snap: &Snapshot, doc: &StatusDoc, prev_ref: &Option<RefState>, trace: &[(String, bool)], stats: &mut Stats) -> Result<RefState, (String, String)> {
    let (rs, intercept, underspec) = ref_state(doc);
    let (rules, ids) = expected_rules(doc);
    let names = ["wireserver", "imds", "hostga"];
    for i in 0..3 {
        if snap.rules[i] != rules[i] {
            return Err((format!("convergence:{}-rules-not-those-of-the-latest-document", names[i]), format!("agent holds {} but the latest document carries {}", snap.rules[i], rules[i])));
        }
        if snap.rule_ids[i] != ids[i] {
            return Err((format!("convergence:{}-rule-id-not-that-of-the-latest-document", names[i]), format!("agent '{}' document '{}'", snap.rule_ids[i], ids[i])));
        }
    }
    if underspec {
        stats.underspec();
        stats.class("underspecified:v2-enabled-without-authorizationRules");
        return Ok(rs);
    }
    let (latched, issued) = rig.host.with(|s| (s.latched.clone(), s.issued.clone()));
    match &rs {
        RefState::Disabled => {
            if snap.state != "disabled" {
                return Err(("convergence:channel-state-not-disabled".into(), format!("agent reports '{}' for a disabled channel", snap.state)));
            }
            if snap.key_guid.is_some() || snap.key_value.is_some() {
                return Err(("convergence:key-held-while-channel-disabled".into(), format!("agent still holds key {:?} although the host reports the channel disabled", snap.key_guid)));
            }
        }
        _ => {
            if snap.state == "disabled" || snap.state == "Unknown" {
                return Err(("convergence:channel-state-not-enabled".into(), format!("agent reports '{}' for reference state {:?}", snap.state, rs)));
            }
            if snap.key_guid != latched {
                return Err(("convergence:key-not-the-one-the-host-latched".into(), format!("agent key id {:?}, host latched {:?}", snap.key_guid, latched)));
            }
            let want = latched.as_ref().and_then(|g| issued.get(g).cloned());
            if snap.key_value != want {
                return Err(("convergence:key-value-not-the-issued-one".into(), "agent holds another secret than the host issued for the latched id".to_string()));
            }
        }
    }
    if prev_ref.as_ref() != Some(&rs) {
        // the reported state changed: the last three policy updates are for this document
        let want = vec![("wireserver".to_string(), intercept.0), ("imds".to_string(), intercept.1), ("hostga".to_string(), intercept.2)];
        let tail: Vec<(String, bool)> = trace.iter().rev().take(3).rev().cloned().collect();
        if tail != want {
            return Err(("convergence:redirect-policy-not-following-modes".into(), format!("state changed {:?} -> {:?}; policy updates {:?}, expected tail {:?}", prev_ref, rs, trace, want)));
        }
    }
    Ok(rs)
}

pub fn eval(rig: &KeeperRig, case: &Case, stats: &mut Stats) -> Outcome {
    eval_mode(rig, case, stats, false)
}

/// `pairing_only` (C10's third engine): only a signed request that does not verify under the announced id is a failure
pub fn eval_mode(rig: &KeeperRig, case: &Case, stats: &mut Stats, pairing_only: bool) -> Outcome {
    // fresh host
    rig.host.with(|s| {
        s.issued.clear();
        s.latched = None;
        s.doc = None;
        s.status_fault = None;
        s.acquire_faults.clear();
        s.attest_faults.clear();
        s.pending = None;
        s.key_shape = crate::keyhost::KeyShape::Good;
        s.signature_failures.clear();
    });
    // the first document is in place before the agent's first poll (polls are 1 s apart while the state is unknown)
    rig.host.with(|s| s.doc = Some(case.first.to_json()));
    let agent = rig.start_agent(None);
    let timeout = Duration::from_secs(20);
    // C10's engine: the agent's own WireServer client keeps making signed requests during the WHOLE history (a wrong
    // (id, secret) pair may live for one poll interval only), each verified by the host under the announced id
    let stop_prober = std::sync::Arc::new(std::sync::atomic::AtomicBool::new(false));
    let prober = if pairing_only {
        let ks = agent.shared.get_key_keeper_shared_state();
        let stop = stop_prober.clone();
        Some(rig.rt.spawn(async move {
            let mut n = 0u64;
            while !stop.load(std::sync::atomic::Ordering::Relaxed) {
                let _ = azure_proxy_agent::host_clients::wire_server_client::WireServerClient::new("168.63.129.16", 80, ks.clone()).get_goalstate().await;
                n += 1;
                tokio::time::sleep(Duration::from_micros(300)).await;
            }
            n
        }))
    } else {
        None
    };
    let result = (|| -> Result<(), (String, String)> {
        rig.run_step(Step { keep_doc: true, ..Default::default() }, 2, timeout).map_err(|e| ("inconclusive".to_string(), e))?;
        let mut trace = verif_hooks::take_policy_trace();
        let mut snap = rig.snapshot(&agent);
        let mut prev_ref = Some(check_converged(rig, &snap, &case.first, &None, &trace, stats)?);
        let mut prev_doc = case.first.clone();
        let (mut rule_change, mut flip, mut recovered) = (false, false, false);
        let mut pending_failure = false;
        for (i, st) in case.steps.iter().enumerate() {
            match st {
                HStep::Doc { doc, rotate, acquire_faults, attest_faults, foreign } => {
                    let had_faults = !acquire_faults.is_empty() || !attest_faults.is_empty();
                    rig.run_step(Step { doc: Some(doc.to_json()), keep_doc: false, status_fault: None, acquire_faults: acquire_faults.clone(), attest_faults: attest_faults.clone(), rotate: *rotate, rotate_foreign: *foreign, key_shape: None }, 2, timeout)
                        .map_err(|e| ("inconclusive".to_string(), format!("step {}: {}", i, e)))?;
                    // unconsumed fault scripts (no acquire was needed) are dropped by the next step; wait one more poll for good measure
                    trace = verif_hooks::take_policy_trace();
                    snap = rig.snapshot(&agent);
                    let rs = check_converged(rig, &snap, doc, &prev_ref, &trace, stats).map_err(|(s, d)| (s, format!("step {} {:?}: {}", i, st_brief(st), d)))?;
                    if expected_rules(doc).0 != expected_rules(&prev_doc).0 {
                        rule_change = true;
                    }
                    if (prev_ref == Some(RefState::Disabled)) != (rs == RefState::Disabled) {
                        flip = true;
                    }
                    if pending_failure || had_faults {
                        recovered = true;
                    }
                    pending_failure = false;
                    prev_ref = Some(rs);
                    prev_doc = doc.clone();
                    stats.class(if had_faults { "step:document-with-acquire/attest-faults" } else { "step:document" });
                    if snap.key_guid.is_some() {
                        // the agent's own clients sign with whatever the key keeper latched: the host verifies each request under
                        // the key registered for the id it announces (C10: id and MAC belong to the same key)
                        let ks = agent.shared.get_key_keeper_shared_state();
                        rig.rt.block_on(async {
                            let _ = azure_proxy_agent::host_clients::wire_server_client::WireServerClient::new("168.63.129.16", 80, ks.clone()).get_goalstate().await;
                            let _ = azure_proxy_agent::host_clients::imds_client::ImdsClient::new("169.254.169.254", 80, ks).get_imds_instance_info().await;
                        });
                        stats.class("probe:signed-requests-by-the-agents-own-clients-after-convergence");
                        let fails = rig.host.with(|s| s.signature_failures.clone());
                        if let Some((sig, d)) = fails.first() {
                            let sig = if sig.starts_with("signing:mac-does-not-verify") || sig.starts_with("signing:unknown-key-id") { "pairing:key-id-and-mac-belong-to-different-keys".to_string() } else { sig.clone() };
                            return Err((sig, format!("step {} {:?}: agent holds key id {:?}, host latched {:?}: {}", i, st_brief(st), snap.key_guid, rig.host.with(|s| s.latched.clone()), d.chars().take(400).collect::<String>())));
                        }
                    }
                    if *rotate {
                        stats.class(if *foreign { "step:host-names-a-key-the-guest-never-stored" } else { "step:key-rotation" });
                    }
                }
                HStep::StatusFailure { fault } => {
                    rig.run_step(Step { keep_doc: true, status_fault: Some(fault.clone()), ..Default::default() }, 3, timeout).map_err(|e| ("inconclusive".to_string(), format!("step {}: {}", i, e)))?;
                    let now = rig.snapshot(&agent);
                    let t = verif_hooks::take_policy_trace();
                    stats.class("step:status-failure");
                    if now != snap {
                        return Err(("convergence:failed-status-poll-changed-state".into(), format!("step {} {:?}: before {:?} after {:?}", i, fault, snap, now)));
                    }
                    if !t.is_empty() {
                        return Err(("convergence:failed-status-poll-updated-redirect-policy".into(), format!("step {} {:?}: {:?}", i, fault, t)));
                    }
                    pending_failure = true;
                    // back to serving the previous document
                    rig.run_step(Step { keep_doc: true, ..Default::default() }, 2, timeout).map_err(|e| ("inconclusive".to_string(), format!("step {}: {}", i, e)))?;
                    let after = rig.snapshot(&agent);
                    let t2 = verif_hooks::take_policy_trace();
                    let _ = check_converged(rig, &after, &prev_doc, &prev_ref, &t2, stats).map_err(|(s, d)| (s, format!("recovery after step {}: {}", i, d)))?;
                    snap = after;
                    recovered = true;
                }
            }
        }
        if rule_change && flip && recovered {
            stats.nontrivial_hash(h64(case));
        }
        Ok(())
    })();
    stop_prober.store(true, std::sync::atomic::Ordering::Relaxed);
    if let Some(h) = prober {
        if let Ok(n) = rig.rt.block_on(h) {
            stats.class_n("probe:signed-requests-made-while-the-history-ran", n);
        }
    }
    // every signed request the host saw verified under the key registered for its id (C04 own calls, C10)
    let result = result.and_then(|_| {
        let fails = rig.host.with(|s| s.signature_failures.clone());
        match fails.first() {
            Some((sig, d)) => {
                let sig = if sig.starts_with("signing:mac-does-not-verify") || sig.starts_with("signing:unknown-key-id") { "pairing:key-id-and-mac-belong-to-different-keys".to_string() } else { sig.clone() };
                Err((sig, format!("host latched {:?}: {}", rig.host.with(|s| s.latched.clone()), d.chars().take(500).collect::<String>())))
            }
            None => Ok(()),
        }
    });
    rig.stop_agent(&agent);
    let _ = std::fs::remove_dir_all(&agent.key_dir);
    let _ = std::fs::remove_dir_all(&agent.log_dir);
    stats.sample(|| serde_json::json!({"first": case.first.to_json(), "steps": case.steps.iter().map(st_brief).collect::<Vec<_>>()}));
    match result {
        Ok(()) => Outcome::Pass,
        Err((sig, d)) if sig == "inconclusive" => {
            if !stats.is_frozen() {
                stats.inconclusive.push(d);
            }
            Outcome::Pass
        }
        Err((sig, _)) if pairing_only && !sig.starts_with("pairing:") => {
            stats.class("ignored:failure-of-another-property");
            Outcome::Pass
        }
        Err((sig, d)) => Outcome::fail(sig, d),
    }
}

pub fn st_brief(s: &HStep) -> serde_json::Value {
    match s {
        HStep::Doc { doc, rotate, acquire_faults, attest_faults, foreign } => serde_json::json!({"document": doc.to_json(), "rotate": rotate, "host_names_a_key_the_guest_never_stored": foreign, "acquire_faults": acquire_faults, "attest_faults": attest_faults}),
        HStep::StatusFailure { fault } => serde_json::json!({"status_failure": fault}),
    }
}
