//! C10 — the key id in a signature always names the key that produced the MAC, under every
//! interleaving of signing with key rotation / clearing that the owned-schedule executor can express.

use crate::keeper::KeeperRig;
use crate::report::{h64, Stats};
use crate::runner::Outcome;
use crate::sched;
use azure_proxy_agent::host_clients::{imds_client::ImdsClient, wire_server_client::WireServerClient};
use azure_proxy_agent::redirector::verif_hooks;
use azure_proxy_agent::shared_state::SharedState;
use proptest::prelude::*;
use serde::{Deserialize, Serialize};
use std::time::Duration;
use tokio::io::{AsyncReadExt, AsyncWriteExt};

#[derive(Clone, Debug, Serialize, Deserialize, Hash, PartialEq, Eq)]
pub enum OpKind {
    GoalState,
    SharedConfig,
    Instance,
    /// a client request through the real listener (IMDS, authorised)
    Proxied,
    Rotate(u8),
    Clear,
}

#[derive(Clone, Debug, Serialize, Deserialize, Hash)]
pub struct Case {
    pub initial_key: Option<u8>,
    pub ops: Vec<OpKind>,
    pub schedule: Vec<u8>,
    /// the host refuses the first signed requests it gets with these status codes (a host that no longer accepts the key the
    /// request was signed with): whatever the clients do about a refusal, id and MAC of everything they send belong together
    #[serde(default)]
    pub refusals: Vec<u16>,
}

pub fn strategy() -> impl Strategy<Value = Case> {
    let op = prop_oneof![
        3 => Just(OpKind::GoalState), 2 => Just(OpKind::SharedConfig), 2 => Just(OpKind::Instance), 3 => Just(OpKind::Proxied),
        4 => (0u8..4).prop_map(OpKind::Rotate), 1 => Just(OpKind::Clear),
    ];
    (prop::option::weighted(0.85, 0u8..4), prop::collection::vec(op, 2..7), prop::collection::vec(any::<u8>(), 0..90), prop_oneof![3 => Just(vec![]), 1 => prop::collection::vec(prop::sample::select(vec![401u16, 403, 403, 500, 503, 429]), 1..4)]).prop_map(|(initial_key, ops, schedule, refusals)| Case { initial_key, ops, schedule, refusals })
}

pub const RULE: &str = "generator: 2-6 operations - signers (WireServerClient::get_goalstate, get_shared_config, ImdsClient::get_imds_instance_info, a client request relayed by the real listener, which carries a client-made authorization value naming key 0) and key changes (update_key to one of 4 keys, clear_key) - plus a schedule of 0-89 steps; in a quarter of the cases the host refuses the first 1-3 signed requests (401 / 403 / 429 / 5xx); the owned-schedule executor polls one operation once per step with a no-op waker or yields (the only points where the shared-state actor, spawned connection tasks and the I/O driver run), so the interleaving of the signers' reads of the shared key with the key changes is a function of the schedule. oracle at the mock host: every received request that carries an authorization header verifies (independent canonicaliser + HMAC) under the key registered for the key id it announces. non-trivial: a key change was first polled after a signer was first polled and before that signer finished; distinct by hash of (ops, schedule).";

fn key_of(j: u8) -> (String, String) {
    let h = crate::hmacsha::hex_lower(&crate::hmacsha::sha256(format!("c10-key-{}", j % 4).as_bytes()));
    (format!("0000000{}-aaaa-bbbb-cccc-00000000000{}", j % 4, j % 4), h)
}

async fn proxied_client() -> Result<u16, String> {
    let sock = tokio::net::TcpSocket::new_v4().map_err(|e| e.to_string())?;
    sock.bind("127.0.0.1:0".parse().unwrap()).map_err(|e| e.to_string())?;
    let port = sock.local_addr().map_err(|e| e.to_string())?.port();
    verif_hooks::insert(port, verif_hooks::Entry { logon_id: 1001, process_id: std::process::id(), is_admin: 0, destination_ipv4: u32::from_ne_bytes([169, 254, 169, 254]), destination_port: 80u16.to_be() });
    let mut s = sock.connect("127.0.0.1:3080".parse().unwrap()).await.map_err(|e| e.to_string())?;
    s.write_all(format!("GET /metadata/instance?api-version=2021-02-01&x=1 HTTP/1.1\r\nHost: 169.254.169.254\r\nMetadata: true\r\nx-ms-azure-host-authorization: {}\r\nConnection: close\r\n\r\n", crate::keyhost::CLIENT_AUTHZ_MARKER).as_bytes()).await.map_err(|e| e.to_string())?;
    let mut buf = Vec::new();
    let mut tmp = [0u8; 4096];
    loop {
        let n = s.read(&mut tmp).await.map_err(|e| e.to_string())?;
        if n == 0 {
            break;
        }
        buf.extend_from_slice(&tmp[..n]);
        if let Some(e) = crate::rawhttp::head_end(&buf) {
            let head = crate::rawhttp::parse_head(&buf[..e]).map_err(|e| e)?;
            let status: u16 = head.start.1.parse().unwrap_or(0);
            return Ok(status);
        }
    }
    Err("connection closed before a response".into())
}

pub fn eval(rig: &KeeperRig, case: &Case, stats: &mut Stats) -> Outcome {
    // register all keys with the reference host; it verifies every signed request it receives
    rig.host.with(|s| {
        s.issued.clear();
        for j in 0..4 {
            let (g, k) = key_of(j);
            s.issued.insert(g, k);
        }
        s.signature_failures.clear();
        s.counters.signed_ok = 0;
        s.doc = None;
        s.refuse_signed = case.refusals.iter().copied().collect();
    });
    if !case.refusals.is_empty() {
        stats.class("host:refuses-the-first-signed-requests(401/403/5xx/429)");
    }
    let _ = rig.mock.take_requests();
    let rt = tokio::runtime::Builder::new_current_thread().enable_all().build().unwrap();
    let needs_proxy = case.ops.iter().any(|o| *o == OpKind::Proxied);
    let slots_info = rt.block_on(async {
        let shared = SharedState::start_all();
        let ks = shared.get_key_keeper_shared_state();
        if let Some(j) = case.initial_key {
            let (g, k) = key_of(j);
            let _ = ks.update_key(crate::rig::Rig::make_key(&g, &k)).await;
        }
        if needs_proxy {
            let proxy = azure_proxy_agent::proxy::proxy_server::ProxyServer::new(3080, &shared);
            tokio::spawn(async move { proxy.start().await });
            // let the listener bind
            for _ in 0..50 {
                tokio::task::yield_now().await;
            }
            tokio::time::sleep(Duration::from_millis(2)).await;
        }
        let mut ops: Vec<sched::Op<Result<String, String>>> = Vec::new();
        for o in &case.ops {
            let ks = ks.clone();
            let fut: sched::Op<Result<String, String>> = match o {
                OpKind::GoalState => Box::pin(async move { WireServerClient::new("168.63.129.16", 80, ks).get_goalstate().await.map(|_| "ok".to_string()).map_err(|e| e.to_string()) }),
                OpKind::SharedConfig => Box::pin(async move {
                    WireServerClient::new("168.63.129.16", 80, ks).get_shared_config("http://168.63.129.16:80/machine/x/y?comp=config&type=sharedConfig&incarnation=1".to_string()).await.map(|_| "ok".to_string()).map_err(|e| e.to_string())
                }),
                OpKind::Instance => Box::pin(async move { ImdsClient::new("169.254.169.254", 80, ks).get_imds_instance_info().await.map(|_| "ok".to_string()).map_err(|e| e.to_string()) }),
                OpKind::Proxied => Box::pin(async move { proxied_client().await.map(|s| s.to_string()) }),
                OpKind::Rotate(j) => {
                    let (g, k) = key_of(*j);
                    Box::pin(async move { ks.update_key(crate::rig::Rig::make_key(&g, &k)).await.map(|_| "set".to_string()).map_err(|e| e.to_string()) })
                }
                OpKind::Clear => Box::pin(async move { ks.clear_key().await.map(|_| "cleared".to_string()).map_err(|e| e.to_string()) }),
            };
            ops.push(fut);
        }
        let slots = sched::run(ops, &case.schedule, Duration::from_secs(10)).await;
        let info: Vec<(Option<usize>, Option<usize>, u32, Option<Result<String, String>>)> = slots.into_iter().map(|s| (s.started_at, s.finished_at, s.polls, s.out)).collect();
        shared.cancel_cancellation_token();
        for _ in 0..20 {
            tokio::task::yield_now().await;
        }
        info
    });
    drop(rt);
    // non-triviality: a key change started strictly inside a signer's lifetime
    let mut overlapped = false;
    for (i, o) in case.ops.iter().enumerate() {
        if matches!(o, OpKind::Rotate(_) | OpKind::Clear) {
            if let Some(cs) = slots_info[i].0 {
                for (j, p) in case.ops.iter().enumerate() {
                    if !matches!(p, OpKind::Rotate(_) | OpKind::Clear) {
                        if let (Some(ss), Some(sf)) = (slots_info[j].0, slots_info[j].1) {
                            if ss < cs && cs < sf {
                                overlapped = true;
                            }
                        }
                    }
                }
            }
        }
    }
    if overlapped {
        stats.class("schedule:key-change-inside-a-signer");
        stats.nontrivial_hash(h64(&(&case.ops, &case.schedule)));
    }
    let (fails, signed_ok) = rig.host.with(|s| (s.signature_failures.clone(), s.counters.signed_ok));
    stats.class_n("signed-requests-verified", signed_ok);
    stats.sample(|| serde_json::json!({"initial_key": case.initial_key, "ops": case.ops, "schedule": case.schedule, "outcomes": slots_info.iter().map(|s| format!("{:?}", s.3)).collect::<Vec<_>>()}));
    if let Some((sig, d)) = fails.first() {
        let sig = if sig.starts_with("signing:mac-does-not-verify") { "pairing:key-id-and-mac-belong-to-different-keys".to_string() } else { sig.clone() };
        return Outcome::fail(sig, format!("{} (ops {:?}, schedule {:?})", d.chars().take(500).collect::<String>(), case.ops, case.schedule));
    }
    Outcome::Pass
}
