//! C10, end-to-end stress half: real ProxyServer on its multi-thread runtime, several clients sending signed
//! requests on keep-alive connections while the latched key is replaced / cleared / re-latched as fast as possible.
//! The mock host verifies every MAC under the key registered for the key id the request announces.

use crate::props::c05::verify_received;
use crate::report::{h64, Stats};
use crate::rig::{DestSel, Rec, Rig};
use crate::runner::Outcome;
use proptest::prelude::*;
use serde::{Deserialize, Serialize};
use std::collections::BTreeMap;
use std::sync::atomic::{AtomicBool, AtomicU64, Ordering};
use std::sync::{Arc, Mutex};
use std::time::Duration;

#[derive(Clone, Debug, Serialize, Deserialize, Hash)]
pub struct Case {
    pub clients: u8,
    pub requests_per_client: u16,
    /// pause of the key changer between two changes, microseconds
    pub pause_us: u16,
    /// every n-th change is a clear followed by a re-latch (0 = never)
    pub clear_every: u8,
    pub seed: u64,
}

pub fn strategy() -> impl Strategy<Value = Case> {
    (2u8..7, prop_oneof![3 => 40u16..120, 1 => 120u16..400], prop_oneof![2 => Just(0u16), 2 => 1u16..200, 1 => 200u16..2000], prop_oneof![Just(0u8), Just(2u8), Just(5u8)], any::<u64>())
        .prop_map(|(clients, requests_per_client, pause_us, clear_every, seed)| Case { clients, requests_per_client, pause_us, clear_every, seed })
}

pub const RULE: &str = "stress half (end-to-end): 2-6 clients, each on its own keep-alive connection attributed to an authorised caller, send 40-400 requests back to back through the real listener (multi-thread runtime) while another thread replaces the latched key as fast as it can (generated pause 0-2000 us; every 2nd/5th change is a clear followed by a re-latch). Every key is registered with the mock host BEFORE it is handed to the agent; key ids are lower-case, upper-case and mixed-case, secrets are 256, 512 and 128 bits long in turn. oracle: every request that reaches the host with an authorization header announces a registered key id and its MAC verifies under THAT key over the request as received. non-trivial: >= 20 key changes happened while requests were in flight; distinct by hash of the case.";

fn key_of(seed: u64, i: u64) -> (String, String) {
    let g = crate::hmacsha::hex_lower(&crate::hmacsha::sha256(format!("c10s-guid-{}-{}", seed, i).as_bytes()));
    let k = crate::hmacsha::hex_lower(&crate::hmacsha::sha256(format!("c10s-key-{}-{}", seed, i).as_bytes()));
    // secrets of different sizes follow each other: 256 bit as a rule, 512 and 128 bit in between
    let k = match i % 5 {
        2 => format!("{}{}", k, crate::hmacsha::hex_lower(&crate::hmacsha::sha256(k.as_bytes()))),
        4 => k[..32].to_string(),
        _ => k,
    };
    let guid = format!("{}-{}-{}-{}-{}", &g[0..8], &g[8..12], &g[12..16], &g[16..20], &g[20..32]);
    // key ids are opaque text to the agent: upper-case and mixed-case spellings too
    let guid = match i % 4 {
        1 => guid.to_uppercase(),
        3 => guid.chars().enumerate().map(|(n, c)| if n % 2 == 0 { c.to_ascii_uppercase() } else { c }).collect(),
        _ => guid,
    };
    (guid, k)
}

pub fn eval(rig: &Rig, case: &Case, stats: &mut Stats) -> Outcome {
    rig.set_rules(None, None, None);
    let registry: Arc<Mutex<BTreeMap<String, String>>> = Arc::new(Mutex::new(BTreeMap::new()));
    let (g0, k0) = key_of(case.seed, 0);
    registry.lock().unwrap().insert(g0.clone(), k0.clone());
    rig.set_key(Some((&g0, &k0)));
    let _ = rig.mock.take_requests();
    let done = AtomicBool::new(false);
    let changes = AtomicU64::new(0);
    let mut failure: Option<(String, String)> = None;
    let mut verified = 0u64;
    let mut unsigned = 0u64;
    std::thread::scope(|sc| {
        // the key changer
        let changer = sc.spawn(|| {
            let mut i = 1u64;
            while !done.load(Ordering::SeqCst) {
                let (g, k) = key_of(case.seed, i);
                registry.lock().unwrap().insert(g.clone(), k.clone());
                if case.clear_every > 0 && i % case.clear_every as u64 == 0 {
                    rig.set_key(None);
                }
                rig.set_key(Some((&g, &k)));
                changes.fetch_add(1, Ordering::SeqCst);
                i += 1;
                if case.pause_us > 0 {
                    std::thread::sleep(Duration::from_micros(case.pause_us as u64));
                }
            }
        });
        let clients: Vec<_> = (0..case.clients)
            .map(|ci| {
                sc.spawn(move || -> Result<(), (String, String)> {
                    let rec = Rec { uid_sel: 0, helper_sel: ci % 5, is_root: true, dest: DestSel::Imds };
                    let mut conn = rig.open(Some(rig.entry_of(&rec)), 0).map_err(|e| ("rig:cannot-open-connection".to_string(), e))?;
                    for n in 0..case.requests_per_client {
                        let wire = crate::rawhttp::request_head("GET", &format!("/metadata/instance?c={}&n={}", ci, n), &[("Host".into(), b"169.254.169.254".to_vec()), ("Metadata".into(), b"true".to_vec())]);
                        conn.send(&wire).map_err(|e| ("relay:keep-alive-connection-lost".to_string(), e.to_string()))?;
                        conn.read("GET", Duration::from_secs(30)).map_err(|e| ("relay:keep-alive-connection-lost".to_string(), format!("client {} request {}: {:?}", ci, n, e)))?;
                    }
                    crate::rawhttp::close_abortive(conn.stream);
                    Ok(())
                })
            })
            .collect();
        for c in clients {
            if let Ok(Err(e)) = c.join() {
                failure.get_or_insert(e);
            }
        }
        done.store(true, Ordering::SeqCst);
        let _ = changer.join();
    });
    let n_changes = changes.load(Ordering::SeqCst);
    let reg = registry.lock().unwrap().clone();
    for r in rig.mock.take_requests() {
        if r.head.get("x-ms-azure-host-authorization").is_none() {
            unsigned += 1; // relayed while no key was latched (between a clear and the re-latch)
            continue;
        }
        match verify_received(&r, &|g| reg.get(g).cloned(), true) {
            Ok(_) => verified += 1,
            Err((sig, detail)) => {
                let sig = if sig.starts_with("signing:mac-does-not-verify") { "pairing:key-id-and-mac-belong-to-different-keys".to_string() } else { sig };
                failure.get_or_insert((sig, format!("{} {}: {} ({} key changes so far in this case)", r.method, r.target, detail, n_changes)));
                break;
            }
        }
    }
    stats.class_n("sum_signed-requests-verified-at-the-host", verified);
    stats.class_n("sum_key-changes-during-the-stress", n_changes);
    stats.class_n("sum_requests-relayed-unsigned-while-no-key-was-latched", unsigned);
    if n_changes >= 20 {
        stats.nontrivial_hash(h64(case));
    }
    stats.sample(|| serde_json::json!({"stress": case, "key_changes": n_changes, "verified": verified, "unsigned": unsigned}));
    rig.set_key(None);
    if let Some((s, d)) = failure {
        return Outcome::fail(s, d);
    }
    Outcome::Pass
}
