//! C11 — enforce blocks, audit forwards and records; every denial is recorded exactly once in the
//! failed-authorization summary (getter and status.json).

use crate::gen::{self, GDoc, GUrl};
use crate::props::c01::{dest_of, exchange};
use crate::refmodel::authz::{self, Dest, Verdict};
use crate::refmodel::rbac;
use crate::report::{h64, Stats};
use crate::rig::{DestSel, Rec, Rig};
use crate::runner::Outcome;
use proptest::prelude::*;
use serde::{Deserialize, Serialize};
use std::collections::BTreeMap;
use std::time::Duration;

#[derive(Clone, Debug, Serialize, Deserialize, Hash)]
pub struct Plan {
    /// the host resets the connection instead of answering these requests (the relay fails after authorization)
    #[serde(default)]
    pub upstream_fails: bool,
    pub rec: Rec,
    pub method: String,
    pub url: GUrl,
    pub bind: gen::Bind,
    pub repeat: u8,
    pub concurrent: bool,
    /// while this plan runs the destination host cannot be reached at all (its address is off the loopback device): a denial is
    /// a denial all the same - 403 in enforce mode, recorded in both modes; what would be relayed ends in a 5xx
    #[serde(default)]
    pub host_down: bool,
}

#[derive(Clone, Debug, Serialize, Deserialize, Hash)]
pub struct Case {
    pub ws: Option<GDoc>,
    pub imds: Option<GDoc>,
    pub hostga: Option<GDoc>,
    pub plans: Vec<Plan>,
    /// rule sets (wireserver, imds, hostga) that replace the first ones after the last plan, while one connection of the first
    /// eligible plan is still open: its next request is decided - blocked, recorded, relayed - under the NEW rules
    #[serde(default)]
    pub later: Option<(Option<GDoc>, Option<GDoc>, Option<GDoc>)>,
}

/// make names unique (first occurrence wins) so that the decision is fully specified
pub fn sanitize_doc(mut d: GDoc) -> GDoc {
    fn uniq<T>(v: &mut Option<Vec<T>>, name: impl Fn(&T) -> String) {
        if let Some(items) = v {
            let mut seen = std::collections::BTreeSet::new();
            items.retain(|x| seen.insert(name(x)));
        }
    }
    uniq(&mut d.privileges, |p| p.name.clone());
    uniq(&mut d.roles, |r| r.name.clone());
    uniq(&mut d.identities, |i| i.name.clone());
    d.with_content_id()
}

/// drop later query pieces whose key repeats an earlier one (case-insensitively)
pub fn sanitize_target(t: &str) -> String {
    let (path, q) = rbac::split_target(t);
    match q {
        None => t.to_string(),
        Some(q) => {
            let mut seen = std::collections::BTreeSet::new();
            let pieces: Vec<&str> = q
                .split('&')
                .filter(|p| {
                    let k = p.split('=').next().unwrap_or("").to_lowercase();
                    k.is_empty() || seen.insert(k)
                })
                .collect();
            format!("{}?{}", path, pieces.join("&"))
        }
    }
}

fn plan() -> impl Strategy<Value = Plan> {
    (
        0u8..5,
        // 7 helper processes: indices 5 and 6 share the executable of 0 and 1 but have another command line
        prop_oneof![5 => 0u8..5, 3 => Just(0u8), 3 => Just(5u8), 1 => Just(1u8), 1 => Just(6u8)],
        prop_oneof![5 => Just(DestSel::Imds), 3 => Just(DestSel::WireServer), 2 => Just(DestSel::GaPlugin)],
        gen::sel(gen::REQ_METHODS),
        gen::gurl_no_traversal(),
        gen::bind(),
        prop_oneof![5 => Just(1u8), 3 => 2u8..5, 1 => 5u8..12],
        (any::<bool>(), prop::bool::weighted(0.12), prop::bool::weighted(0.06)),
    )
        .prop_map(|(uid_sel, helper_sel, dest, method, mut url, bind, repeat, (concurrent, upstream_fails, host_down))| {
            if url.path.eq_ignore_ascii_case("/provision") {
                url.path = "/provisio".into();
            }
            Plan { rec: Rec { uid_sel, helper_sel, is_root: matches!(dest, DestSel::WireServer | DestSel::GaPlugin) || uid_sel == 0, dest }, method, url, bind, repeat, concurrent: concurrent || repeat >= 100, upstream_fails, host_down: host_down && repeat < 12 }
        })
}

/// histories whose first plan is a burst of 150-250 simultaneous connections (more requests in flight than any queue inside the agent holds)
pub fn storm_strategy() -> impl Strategy<Value = Case> {
    (strategy(), 150u8..=250, any::<bool>()).prop_map(|(mut c, n, enforce)| {
        c.plans[0].repeat = n;
        c.plans[0].concurrent = true;
        // the burst is a burst of DENIALS: IMDS under a deny-everything rule set in enforce or audit mode
        c.plans[0].rec.dest = DestSel::Imds;
        c.plans[0].bind = gen::Bind { priv_sel: None, ident_sel: None };
        c.imds = Some(
            GDoc { mode: if enforce { "enforce" } else { "audit" }.into(), default_access: "deny".into(), id: String::new(), rules_present: true, privileges: Some(vec![]), roles: Some(vec![]), identities: Some(vec![]), assignments: Some(vec![]) }
                .with_content_id(),
        );
        c
    })
}

pub fn strategy() -> impl Strategy<Value = Case> {
    (
        prop::option::weighted(0.9, gen::gdoc().prop_map(sanitize_doc)),
        prop::option::weighted(0.9, gen::gdoc().prop_map(sanitize_doc)),
        prop::option::weighted(0.7, gen::gdoc().prop_map(sanitize_doc)),
        prop::collection::vec(plan(), 1..8),
        prop::option::weighted(0.3, (prop::option::weighted(0.9, gen::gdoc().prop_map(sanitize_doc)), prop::option::weighted(0.9, gen::gdoc().prop_map(sanitize_doc)), prop::option::weighted(0.7, gen::gdoc().prop_map(sanitize_doc)))),
    )
        .prop_map(|(ws, imds, hostga, mut plans, later)| {
            // (a connection kept open across the rule change would lose its host while the address is away)
            if later.is_some() {
                for p in plans.iter_mut() {
                    p.host_down = false;
                }
            }
            Case { ws, imds, hostga, plans, later }
        })
}

pub const RULE: &str = "generator: in 30% of the cases one connection of the first eligible plan is kept open, the three rule sets are replaced by other generated ones after the last plan, and one more request goes over that connection: it is blocked / relayed / recorded according to the NEW rule set and mode; one rule set (or none) per endpoint with unique names, each in a generated mode; a history of 1-7 request plans, each = caller (uid from the generated passwd, helper process; elevated for WireServer/HostGAPlugin so that denials come from the rules) (two pairs of helper processes share an executable and differ only in their command line) x method x URL (mostly bound to the destination's rule set, no duplicate query keys) repeated 1-11 times, sequentially or concurrently on separate connections (12% of the plans: the host resets the relayed request instead of answering - the client must get a 5xx and an audit denial is recorded all the same; 6%: the destination host cannot be reached at all while the plan runs - an enforced denial is still a 403, every denial is still recorded), or (second engine, 3% of the cases) with the first plan as a burst of 150-250 simultaneous denied connections (all opened, then all requests written, then all responses read), followed by the same number of denials handed to AgentStatusSharedState::add_one_failed_connection_summary by concurrent tasks of the agent's runtime. oracle: per request - enforce+deny => 403 and zero upstream bytes; audit+deny => relayed to the recorded destination with status 200; disabled/allowed => relayed; after the history the reference multiset denials[(user, destination ip, port, executable, command line, '403 Forbidden')] equals get_all_failed_connection_summary() (keys and counts) and the failedAuthenticateSummary of the status.json written by a real ProxyAgentStatusTask; one audit-denied request per case is re-sent with the rule set disabled and the two upstream requests must be equal except for the date value and MAC. non-trivial: history with >= 2 identical denials and denials from >= 2 callers in audit or enforce mode; distinct by hash of the case.";

type Key = (String, String, u16, String, String, String);

pub struct StatusTask {
    pub dir: String,
}

/// start the real status task once per rig (20 ms interval, private directory)
pub fn start_status_task(rig: &Rig) -> StatusTask {
    let dir = format!("{}/status", crate::ns::RUN_ROOT);
    let task = azure_proxy_agent::proxy_agent_status::ProxyAgentStatusTask::new(
        Duration::from_millis(20),
        std::path::PathBuf::from(&dir),
        rig.shared.get_cancellation_token(),
        rig.shared.get_key_keeper_shared_state(),
        rig.shared.get_agent_status_shared_state(),
    );
    rig.rt.spawn(async move { task.start().await });
    StatusTask { dir }
}

fn read_status_json(dir: &str) -> Option<serde_json::Value> {
    let text = std::fs::read_to_string(format!("{}/status.json", dir)).ok()?;
    serde_json::from_str(&text).ok()
}

/// one request on an open connection, with what reached the hosts meanwhile
fn exchange_on(rig: &Rig, conn: &mut crate::rig::Conn, wire: &[u8], method: &str) -> crate::props::c01::Observed {
    let before = rig.mock.bytes_by_listener();
    let _ = rig.mock.take_requests();
    let send_err = conn.send(wire).err().map(|e| e.to_string());
    let resp = conn.read(method, std::time::Duration::from_secs(20));
    let after = rig.mock.bytes_by_listener();
    let mut delta = BTreeMap::new();
    for (k, v) in &after {
        let d = v - before.get(k).copied().unwrap_or(0);
        if d > 0 {
            delta.insert(k.clone(), d);
        }
    }
    let requests = rig.mock.take_requests();
    match resp {
        Ok(r) => crate::props::c01::Observed { status: Some(r.status), delta, requests, client_error: None, response: Some(r) },
        Err(e) => crate::props::c01::Observed { status: None, delta, requests, client_error: Some(format!("{:?} (send error: {:?})", e, send_err)), response: None },
    }
}

/// verdict of the reference vs what was observed for one request on a kept-open connection
fn judge_held(verdict: Verdict, o: &crate::props::c01::Observed, listener: &str, method: &str, target: &str, when: &str) -> Option<(String, String)> {
    let status = o.status?;
    match verdict {
        Verdict::Block => {
            if status != 403 {
                return Some(("modes:enforced-denial-not-403".into(), format!("status {} for {} {} on a kept-open connection {}", status, method, target, when)));
            }
            if !o.delta.is_empty() || !o.requests.is_empty() {
                return Some(("modes:enforced-denial-relayed".into(), format!("{:?} bytes upstream for {} {} on a kept-open connection {}", o.delta, method, target, when)));
            }
        }
        _ => {
            if status != 200 {
                return Some((if verdict == Verdict::RelayWithAudit { "modes:audit-denial-not-relayed" } else { "modes:allowed-request-not-relayed" }.into(), format!("status {} for {} {} on a kept-open connection {} (verdict {:?})", status, method, target, when, verdict)));
            }
            if o.requests.len() != 1 || o.requests[0].listener != listener || o.requests[0].target != target {
                return Some(("modes:relay-differs".into(), format!("expected one {} {} at {} on a kept-open connection {}, host saw {:?}", method, target, listener, when, o.requests.iter().map(|r| (&r.listener, &r.method, &r.target)).collect::<Vec<_>>())));
            }
        }
    }
    None
}

pub fn eval(rig: &Rig, st: &StatusTask, case: &Case, stats: &mut Stats) -> Outcome {
    rig.set_rules(case.ws.as_ref(), case.imds.as_ref(), case.hostga.as_ref());
    rig.set_key(None);
    let agent_status = rig.shared.get_agent_status_shared_state();
    rig.rt.block_on(async { agent_status.clear_all_summary().await }).expect("clear_all_summary");
    rig.mock.set_responder(Box::new(|r| {
        let mut s = crate::mockhost::ResponseSpec::ok(b"mock");
        s.reset = r.head.get("x-upstream-fails").is_some();
        s
    }));
    let mut want: BTreeMap<Key, u64> = BTreeMap::new();
    let mut audit_probe: Option<(Plan, String)> = None;
    let mut identical_denials = false;
    let mut total_requests = 0u64;
    let mut held: Option<(crate::rig::Conn, Plan, String, Vec<u8>)> = None;

    for plan in &case.plans {
        let d = dest_of(plan.rec.dest);
        let rules = match d {
            Dest::WireServer => case.ws.as_ref(),
            Dest::GaPlugin => case.hostga.as_ref(),
            Dest::Imds => case.imds.as_ref(),
            _ => None,
        };
        let claims = rig.claims_of(&plan.rec);
        let url = match rules {
            Some(doc) => gen::apply_bind(doc, &plan.url, &claims, &gen::Bind { priv_sel: plan.bind.priv_sel, ident_sel: None }).0,
            None => plan.url.clone(),
        };
        let target = sanitize_target(&url.text());
        if target.parse::<hyper::Uri>().is_err() || target.contains(' ') || target == "/provision" || target.contains("..") {
            stats.class("plan-skipped:unusable-target");
            continue;
        }
        let (adm, underspec) = authz::authorize(d, &claims, &target, rules);
        if underspec || adm.len() != 1 {
            stats.class("plan-skipped:underspecified");
            stats.underspec();
            continue;
        }
        let verdict = *adm.iter().next().unwrap();
        let mode = rules.map(rbac::mode_of).unwrap_or_else(|| "none".into());
        stats.class(&format!("request:{:?}/mode:{}", verdict, mode));
        let (ip, port) = plan.rec.dest.addr();
        let key: Key = (claims.user.clone(), format!("{}.{}.{}.{}", ip[0], ip[1], ip[2], ip[3]), port, claims.exe.clone(), claims.cmdline.clone(), "403 Forbidden".to_string());
        let mut wire_headers: Vec<(String, Vec<u8>)> = vec![("Host".into(), b"h".to_vec()), ("Metadata".into(), b"true".to_vec())];
        if plan.upstream_fails {
            wire_headers.push(("x-upstream-fails".into(), b"1".to_vec()));
            stats.class("plan:host-resets-the-relayed-request");
        }
        let wire = crate::rawhttp::request_head(&plan.method, &target, &wire_headers);
        if held.is_none() && case.later.is_some() && !plan.upstream_fails && plan.repeat < 100 {
            // one more request of this plan, on a connection that then stays open across the rule change at the end
            if let Ok(mut c) = rig.open(Some(rig.entry_of(&plan.rec)), 0) {
                let o = exchange_on(rig, &mut c, &wire, &plan.method);
                total_requests += 1;
                if let Some((sig, d)) = judge_held(verdict, &o, plan.rec.dest.listener().unwrap_or(""), &plan.method, &target, "before the rule change") {
                    return Outcome::fail(sig, d);
                }
                if o.status.is_some() {
                    if verdict != Verdict::Relay {
                        *want.entry(key.clone()).or_insert(0) += 1;
                    }
                    held = Some((c, plan.clone(), target.clone(), wire.clone()));
                }
            }
        }
        let n = plan.repeat.max(1) as usize;
        total_requests += n as u64;
        if n >= 100 {
            stats.class("plan:burst-of-150-250-simultaneous-connections");
        }
        let host_addr = format!("{}.{}.{}.{}", ip[0], ip[1], ip[2], ip[3]);
        let host_is_down = plan.host_down && n < 100 && crate::ns::set_host_address(&host_addr, false).is_ok();
        if host_is_down {
            stats.class("plan:destination-host-unreachable");
        }
        let run_one = || exchange(rig, Some(&plan.rec), &wire, &plan.method);
        let observations: Vec<Result<crate::props::c01::Observed, String>> = if n >= 100 {
            // a burst: all connections are opened first, then every request is written before any response is read,
            // so that all of them are in flight inside the agent at the same moment
            let entry = rig.entry_of(&plan.rec);
            let mut conns = Vec::new();
            let mut out: Vec<Result<crate::props::c01::Observed, String>> = Vec::new();
            for _ in 0..n {
                match rig.open(Some(entry), 0) {
                    Ok(c) => conns.push(c),
                    Err(e) => out.push(Err(e)),
                }
            }
            let sends: Vec<Option<String>> = conns.iter_mut().map(|c| c.send(&wire).err().map(|e| e.to_string())).collect();
            for (mut c, send_err) in conns.into_iter().zip(sends) {
                let o = match c.read(&plan.method, std::time::Duration::from_secs(30)) {
                    Ok(r) => crate::props::c01::Observed { status: Some(r.status), delta: Default::default(), requests: vec![], client_error: None, response: Some(r) },
                    Err(e) => crate::props::c01::Observed { status: None, delta: Default::default(), requests: vec![], client_error: Some(format!("{:?} (send error: {:?})", e, send_err)), response: None },
                };
                crate::rawhttp::close_abortive(c.stream);
                out.push(Ok(o));
            }
            let _ = rig.mock.take_requests();
            out
        } else if plan.concurrent && n > 1 {
            // upstream byte attribution is per case here: concurrent exchanges share the counters, so only statuses are checked per request
            std::thread::scope(|sc| {
                let hs: Vec<_> = (0..n).map(|_| sc.spawn(run_one)).collect();
                hs.into_iter().map(|h| h.join().unwrap_or_else(|_| Err("client thread panicked".into()))).collect()
            })
        } else {
            (0..n).map(|_| run_one()).collect()
        };
        if host_is_down {
            if let Err(e) = crate::ns::set_host_address(&host_addr, true) {
                return Outcome::fail("rig:cannot-restore-host-address", e);
            }
        }
        if verdict != Verdict::Relay {
            *want.entry(key).or_insert(0) += n as u64;
            if n >= 2 {
                identical_denials = true;
            }
        }
        for o in observations {
            let o = match o {
                Ok(o) => o,
                Err(e) => return Outcome::fail("rig:cannot-open-connection", e),
            };
            let status = match o.status {
                Some(s) => s,
                None => return Outcome::fail("modes:no-response", format!("{} {}: {:?}", plan.method, target, o.client_error)),
            };
            match verdict {
                Verdict::Block => {
                    if status != 403 {
                        return Outcome::fail("modes:enforced-denial-not-403", format!("status {} for {} {} (mode {})", status, plan.method, target, mode));
                    }
                    if !plan.concurrent && (!o.delta.is_empty() || !o.requests.is_empty()) {
                        return Outcome::fail("modes:enforced-denial-relayed", format!("{:?} bytes upstream for {} {}", o.delta, plan.method, target));
                    }
                }
                Verdict::RelayWithAudit | Verdict::Relay if plan.upstream_fails || host_is_down => {
                    // authorised (or audit-denied) and handed to the host, which drops it: an error status, and the audit
                    // denial is recorded all the same (checked against the summary below)
                    if !(500..600).contains(&status) {
                        return Outcome::fail("modes:failed-relay-not-reported-as-5xx", format!("status {} for {} {} although the host reset the connection", status, plan.method, target));
                    }
                }
                Verdict::RelayWithAudit | Verdict::Relay => {
                    if status != 200 {
                        return Outcome::fail(
                            if verdict == Verdict::RelayWithAudit { "modes:audit-denial-not-relayed" } else { "modes:allowed-request-not-relayed" },
                            format!("status {} for {} {} (mode {}, verdict {:?})", status, plan.method, target, mode, verdict),
                        );
                    }
                    if !plan.concurrent {
                        let want_l = plan.rec.dest.listener().unwrap_or("");
                        if o.requests.len() != 1 || o.requests[0].listener != want_l || o.requests[0].target != target || o.requests[0].method != plan.method {
                            return Outcome::fail("modes:relay-differs", format!("expected one {} {} at {}, host saw {:?}", plan.method, target, want_l, o.requests.iter().map(|r| (&r.listener, &r.method, &r.target)).collect::<Vec<_>>()));
                        }
                        if verdict == Verdict::RelayWithAudit && audit_probe.is_none() {
                            audit_probe = Some((plan.clone(), target.clone()));
                            // remember the head for the comparison below
                            stats.extra.insert("_audit_head".into(), serde_json::json!(String::from_utf8_lossy(&o.requests[0].head.raw)));
                        }
                    }
                }
            }
        }
    }
    // the rule sets are replaced while one connection is still open: its next request is decided under the new ones
    if let (Some((mut c, plan, target, wire)), Some(later)) = (held.take(), case.later.as_ref()) {
        rig.set_rules(later.0.as_ref(), later.1.as_ref(), later.2.as_ref());
        let d = dest_of(plan.rec.dest);
        let rules2 = match d {
            Dest::WireServer => later.0.as_ref(),
            Dest::GaPlugin => later.2.as_ref(),
            Dest::Imds => later.1.as_ref(),
            _ => None,
        };
        let claims = rig.claims_of(&plan.rec);
        let (adm, underspec) = authz::authorize(d, &claims, &target, rules2);
        if underspec || adm.len() != 1 {
            stats.class("kept-open-connection:decision-underspecified-under-the-new-rules");
        } else {
            let verdict2 = *adm.iter().next().unwrap();
            let o = exchange_on(rig, &mut c, &wire, &plan.method);
            if o.status.is_none() {
                stats.class("kept-open-connection:closed-by-the-proxy-meanwhile");
            } else {
                stats.class(&format!("kept-open-connection:request-after-the-rule-change:{:?}", verdict2));
                total_requests += 1;
                if let Some((sig, d)) = judge_held(verdict2, &o, plan.rec.dest.listener().unwrap_or(""), &plan.method, &target, "after the rule sets were replaced") {
                    crate::rawhttp::close_abortive(c.stream);
                    return Outcome::fail(sig, d);
                }
                if verdict2 != Verdict::Relay {
                    let (ip, port) = plan.rec.dest.addr();
                    let key: Key = (claims.user.clone(), format!("{}.{}.{}.{}", ip[0], ip[1], ip[2], ip[3]), port, claims.exe.clone(), claims.cmdline.clone(), "403 Forbidden".to_string());
                    *want.entry(key).or_insert(0) += 1;
                }
            }
        }
        crate::rawhttp::close_abortive(c.stream);
    }
    if let Some((c, ..)) = held.take() {
        crate::rawhttp::close_abortive(c.stream);
    }
    // burst cases: the same number of denials handed to the recording API at once, the way the request
    // handlers do it (tasks of the agent's runtime, each awaiting its own call; a failed call is only logged)
    if case.plans[0].repeat >= 100 {
        let k = case.plans[0].repeat as usize;
        let handles: Vec<_> = (0..k)
            .map(|i| {
                let a = agent_status.clone();
                rig.rt.spawn(async move {
                    let summary = azure_proxy_agent::proxy::proxy_summary::ProxySummary {
                        id: i as u128,
                        method: "GET".into(),
                        url: "/burst".into(),
                        clientIp: "127.0.0.1".into(),
                        clientPort: 1,
                        ip: "169.254.169.254".into(),
                        port: 80,
                        userId: 4242,
                        userName: "burst-user".into(),
                        userGroups: vec![],
                        processFullPath: "/burst/exe".into(),
                        processCmdLine: "exe --burst".into(),
                        runAsElevated: false,
                        responseStatus: "403 Forbidden".into(),
                        elapsedTime: 1,
                        errorDetails: String::new(),
                    };
                    let _ = a.add_one_failed_connection_summary(summary).await;
                })
            })
            .collect();
        rig.rt.block_on(async {
            for h in handles {
                let _ = h.await;
            }
        });
        want.insert(("burst-user".into(), "169.254.169.254".into(), 80, "/burst/exe".into(), "exe --burst".into(), "403 Forbidden".into()), k as u64);
        stats.class("burst:denials-handed-to-the-recording-api-at-once");
    }
    let callers: std::collections::BTreeSet<(String, String)> = want.keys().map(|k| (k.0.clone(), k.3.clone())).collect();
    if identical_denials && callers.len() >= 2 {
        stats.nontrivial_hash(h64(case));
    }
    stats.sample(|| serde_json::json!({"modes": {"wireserver": case.ws.as_ref().map(|d| d.mode.clone()), "imds": case.imds.as_ref().map(|d| d.mode.clone()), "hostga": case.hostga.as_ref().map(|d| d.mode.clone())},
        "plans": case.plans.iter().map(|p| format!("{:?} uid#{} helper#{} {} {} x{}{}", p.rec.dest, p.rec.uid_sel, p.rec.helper_sel, p.method, p.url.text(), p.repeat, if p.concurrent { " concurrent" } else { "" })).collect::<Vec<_>>(),
        "expected_denials": want.iter().map(|(k, v)| format!("{:?} x{}", k, v)).collect::<Vec<_>>(), "requests": total_requests}));

    // ---- the summary (getter) ----
    let got = rig.rt.block_on(async { agent_status.get_all_failed_connection_summary().await }).expect("get_all_failed_connection_summary");
    let mut got_map: BTreeMap<Key, u64> = BTreeMap::new();
    for s in &got {
        let k: Key = (s.userName.clone(), s.ip.clone(), s.port, s.processFullPath.clone().unwrap_or_default(), s.processCmdLine.clone(), s.responseStatus.clone());
        *got_map.entry(k).or_insert(0) += s.count;
    }
    if got_map != want {
        let sig = if got_map.values().sum::<u64>() > want.values().sum::<u64>() {
            "summary:more-denials-recorded-than-happened"
        } else if got_map.values().sum::<u64>() < want.values().sum::<u64>() {
            "summary:denials-missing-from-summary"
        } else {
            "summary:denials-recorded-under-wrong-key"
        };
        return Outcome::fail(sig, format!("reference {:?} summary {:?}", want, got_map));
    }
    // ---- status.json written by the real status task ----
    let mut ok = false;
    let mut last = String::new();
    for _ in 0..300 {
        if let Some(v) = read_status_json(&st.dir) {
            let mut m: BTreeMap<Key, u64> = BTreeMap::new();
            for s in v["failedAuthenticateSummary"].as_array().cloned().unwrap_or_default() {
                let k: Key = (
                    s["userName"].as_str().unwrap_or("").to_string(),
                    s["ip"].as_str().unwrap_or("").to_string(),
                    s["port"].as_u64().unwrap_or(0) as u16,
                    s["processFullPath"].as_str().unwrap_or("").to_string(),
                    s["processCmdLine"].as_str().unwrap_or("").to_string(),
                    s["responseStatus"].as_str().unwrap_or("").to_string(),
                );
                *m.entry(k).or_insert(0) += s["count"].as_u64().unwrap_or(0);
            }
            last = format!("{:?}", m);
            if m == want {
                ok = true;
                break;
            }
        }
        std::thread::sleep(Duration::from_millis(10));
    }
    if !ok {
        return Outcome::fail("summary:status-json-does-not-converge-to-the-denials", format!("reference {:?}, last status.json {}", want, last));
    }
    // ---- audit relays exactly as an allowed request would be ----
    if let Some((plan, target)) = audit_probe {
        let head_audit = stats.extra.remove("_audit_head").and_then(|v| v.as_str().map(|s| s.to_string())).unwrap_or_default();
        let off = |d: &Option<GDoc>| d.clone().map(|mut x| { x.mode = "disabled".into(); x });
        rig.set_rules(off(&case.ws).as_ref(), off(&case.imds).as_ref(), off(&case.hostga).as_ref());
        let wire = crate::rawhttp::request_head(&plan.method, &target, &[("Host".into(), b"h".to_vec()), ("Metadata".into(), b"true".to_vec())]);
        if let Ok(o) = exchange(rig, Some(&plan.rec), &wire, &plan.method) {
            if o.requests.len() == 1 {
                let strip = |h: &str| -> Vec<String> { h.lines().filter(|l| !l.to_ascii_lowercase().starts_with("x-ms-azure-host-date:")).map(|l| l.to_string()).collect() };
                let a = strip(&head_audit);
                let b = strip(&String::from_utf8_lossy(&o.requests[0].head.raw));
                stats.class("audit-relay-compared-with-disabled-relay");
                if a != b {
                    return Outcome::fail("modes:audit-relay-differs-from-allowed-relay", format!("audit: {:?} disabled: {:?}", a, b));
                }
            }
        }
    } else {
        stats.extra.remove("_audit_head");
    }
    Outcome::Pass
}
