//! C12 — the latched key value never leaves the key store: taint search of every sink for every key
//! the host ever delivered, over run histories with host faults, client traffic and restarts.

use crate::keeper::{Agent, KeeperRig};
use crate::keyhost::{Fault, KeyShape, StatusDoc, Step};
use crate::props::c09::{fault, status_doc};
use crate::report::{h64, Stats};
use crate::runner::Outcome;
use azure_proxy_agent::redirector::verif_hooks;
use proptest::prelude::*;
use serde::{Deserialize, Serialize};
use std::os::unix::fs::{MetadataExt, PermissionsExt};
use std::path::{Path, PathBuf};
use std::time::Duration;

#[derive(Clone, Debug, Serialize, Deserialize, Hash)]
pub enum Client {
    /// attributed, authorised request to IMDS (relayed, signed when a key is latched)
    Relayed { path: String },
    /// non-elevated caller to WireServer (always 403)
    Denied,
    /// connection made directly to the listener (421)
    Direct,
    Provision { notify: bool, tick: u8, metadata_header: bool },
}

#[derive(Clone, Debug, Serialize, Deserialize, Hash)]
pub enum St {
    Doc { doc: StatusDoc, rotate: bool, acquire_faults: Vec<Fault>, attest_faults: Vec<Fault>, key_shape: KeyShape },
    StatusFailure { fault: Fault },
    Client(Client),
    Restart,
    /// environment fault: the key directory disappears while the agent runs; a rotation follows at once
    RemoveKeyDir,
    /// requesters that go away: every question the shared key state answers is asked and abandoned after its first poll (a
    /// client that disconnects while its request is being signed, a task that loses a select at shutdown), then the state
    /// task runs; `n` rounds
    AbandonedReaders(u8),
}

#[derive(Clone, Debug, Serialize, Deserialize, Hash)]
pub struct Case {
    pub first: StatusDoc,
    pub steps: Vec<St>,
    /// the configured key directory is a symbolic link to a directory with ordinary permissions (a relocated state folder)
    #[serde(default)]
    pub key_dir_is_link: bool,
}

fn key_shape() -> impl Strategy<Value = KeyShape> {
    prop_oneof![8 => Just(KeyShape::Good), 1 => Just(KeyShape::NonHex), 1 => Just(KeyShape::OddLength), 1 => Just(KeyShape::GuidPathNew), 1 => Just(KeyShape::GuidPathExisting), 1 => (0u8..3).prop_map(KeyShape::GuidSpecial), 1 => Just(KeyShape::Hex512), 1 => Just(KeyShape::Hex128), 1 => Just(KeyShape::Hex768)]
}

fn client() -> impl Strategy<Value = Client> {
    prop_oneof![
        4 => prop::sample::select(vec!["/metadata/instance?api-version=2021-02-01", "/metadata/identity/oauth2/token?resource=x", "/x"]).prop_map(|p| Client::Relayed { path: p.to_string() }),
        2 => Just(Client::Denied),
        1 => Just(Client::Direct),
        3 => (any::<bool>(), 0u8..3, prop::bool::weighted(0.9)).prop_map(|(notify, tick, metadata_header)| Client::Provision { notify, tick, metadata_header }),
    ]
}

fn enabled_doc() -> impl Strategy<Value = StatusDoc> {
    prop_oneof![
        2 => prop::sample::select(vec!["wireserver", "wireserverandimds", "WireServer"]).prop_map(|s| StatusDoc::V1 { state: s.to_string() }),
        3 => status_doc(),
    ]
}

fn st() -> impl Strategy<Value = St> {
    prop_oneof![
        5 => (enabled_doc(), prop::bool::weighted(0.35), prop::collection::vec(fault(), 0..2), prop::collection::vec(fault(), 0..2), key_shape()).prop_map(|(doc, rotate, acquire_faults, attest_faults, key_shape)| St::Doc {
            doc,
            rotate,
            acquire_faults,
            attest_faults: attest_faults.into_iter().filter(|f| matches!(f, Fault::Status(..) | Fault::Reset)).collect(),
            key_shape,
        }),
        2 => fault().prop_map(|fault| St::StatusFailure { fault }),
        6 => client().prop_map(St::Client),
        1 => Just(St::Restart),
        1 => Just(St::RemoveKeyDir),
        2 => (1u8..4).prop_map(St::AbandonedReaders),
    ]
}

pub fn strategy() -> impl Strategy<Value = Case> {
    (enabled_doc(), prop::collection::vec(st(), 2..12), prop::bool::weighted(0.15)).prop_map(|(first, steps, key_dir_is_link)| Case { first, steps, key_dir_is_link })
}

pub const RULE: &str = "generator: run histories of the real KeyKeeper + ProxyServer with file logging configured exactly as service::start_service does (Trace level), the event logger flushing every 10 ms and the status task writing status.json every 20 ms: status documents (C09), key rotations, failing acquire/attest calls with error bodies, key responses that are well-formed but carry a non-hex or odd-length key, a valid hex key of another size (512 / 128 bit) or a key id that is a relative path (into a folder that does not exist / that exists next to the key directory), the key directory removed while the agent runs (environment fault, followed by a rotation), readers of the shared key state that are dropped after their first poll (the state task finds nobody to answer), in 15% of the histories the configured key directory is a symbolic link to a directory with ordinary permissions, status failures, restarts of the agent on the same directories, interleaved with client traffic through the proxy (relayed signed requests, denied requests, direct connections, /provision queries with/without notify, with past/current/future ticks). taint set: every key value delivered in a parseable key response, as given, lower/upper-cased, as raw bytes and as base64 of both. sinks searched after every history: every file under the log directory (incl. connection log and rule dumps), the event directory, the status directory, non-key files of the key directory (status.tag, provisioned.tag), every file next to the key directory, the /dev/console stand-in, the process's stdout/stderr, and every byte returned to the local client. Also after every history: the key directory has mode 0700 and owner root. non-trivial: history with >= 1 successful latch and >= 1 host fault or denied//provision request after it; distinct by hash of the history.";

pub struct Env {
    pub stdio_log: Option<PathBuf>,
    pub stdio_offset: u64,
    pub console_offset: u64,
}

pub fn setup(rig: &KeeperRig) -> Env {
    // event logger (process-wide): flush every 10 ms into the configured event folder
    let events = azure_proxy_agent::common::config::get_events_dir();
    rig.rt.spawn(async move {
        proxy_agent_shared::telemetry::event_logger::start(events, Duration::from_millis(10), 30, |_s: String| async {}).await;
    });
    let stdio_log = std::env::var("VERIF_OUT").ok().map(|p| PathBuf::from(format!("{}.log", p)));
    Env { stdio_log, stdio_offset: 0, console_offset: 0 }
}

fn b64(data: &[u8]) -> String {
    const T: &[u8; 64] = b"ABCDEFGHIJKLMNOPQRSTUVWXYZabcdefghijklmnopqrstuvwxyz0123456789+/";
    let mut out = String::new();
    for c in data.chunks(3) {
        let n = (c[0] as u32) << 16 | (*c.get(1).unwrap_or(&0) as u32) << 8 | *c.get(2).unwrap_or(&0) as u32;
        out.push(T[(n >> 18) as usize & 63] as char);
        out.push(T[(n >> 12) as usize & 63] as char);
        out.push(if c.len() > 1 { T[(n >> 6) as usize & 63] as char } else { '=' });
        out.push(if c.len() > 2 { T[n as usize & 63] as char } else { '=' });
    }
    out
}

pub fn taint_forms(key: &str) -> Vec<(String, Vec<u8>)> {
    let mut v: Vec<(String, Vec<u8>)> = vec![
        ("as-delivered".into(), key.as_bytes().to_vec()),
        ("lower-case".into(), key.to_lowercase().into_bytes()),
        ("upper-case".into(), key.to_uppercase().into_bytes()),
        ("base64-of-text".into(), b64(key.as_bytes()).trim_end_matches('=').as_bytes().to_vec()),
    ];
    if let Some(raw) = crate::hmacsha::hex_decode(key) {
        if raw.len() >= 8 {
            v.push(("base64-of-bytes".into(), b64(&raw).trim_end_matches('=').as_bytes().to_vec()));
            v.push(("raw-bytes".into(), raw));
        }
    }
    v
}

fn find(hay: &[u8], needle: &[u8]) -> Option<usize> {
    if needle.is_empty() || hay.len() < needle.len() {
        return None;
    }
    hay.windows(needle.len()).position(|w| w == needle)
}

fn context_of(hay: &[u8], at: usize, len: usize) -> String {
    let start = hay[..at].iter().rposition(|b| *b == b'\n').map(|p| p + 1).unwrap_or(0);
    let end = hay[at..].iter().position(|b| *b == b'\n').map(|p| at + p).unwrap_or(hay.len());
    let mut line = hay[start..end].to_vec();
    let rel = at - start;
    let upto = (rel + len).min(line.len());
    for b in line[rel..upto].iter_mut() {
        *b = b'#';
    }
    String::from_utf8_lossy(&line).chars().take(400).collect()
}

fn classify(line: &str, key: &str) -> &'static str {
    if line.contains("Hex encoded key") || line.contains("Hex(\"") {
        // the recorded known finding is the echo of a key that really is not hex (non-hex characters or odd length);
        // the same error text around a key that IS valid hex is another defect
        let valid_hex = key.len() % 2 == 0 && !key.is_empty() && key.chars().all(|c| c.is_ascii_hexdigit());
        if valid_hex {
            "Error::Hex-echo-of-a-valid-hex-key"
        } else {
            "Error::Hex-echo"
        }
    } else {
        "other"
    }
}

fn walk(dir: &Path, out: &mut Vec<PathBuf>) {
    if let Ok(rd) = std::fs::read_dir(dir) {
        for e in rd.flatten() {
            let p = e.path();
            if p.is_dir() {
                walk(&p, out);
            } else {
                out.push(p);
            }
        }
    }
}

/// search `data` (a sink) for every taint form of every delivered key
fn scan(sink: &str, name: &str, data: &[u8], keys: &[String], out: &mut std::collections::BTreeMap<String, String>) {
    for k in keys {
        for (form, needle) in taint_forms(k) {
            let mut from = 0usize;
            let mut hits = 0;
            while let Some(rel) = find(&data[from..], &needle) {
                let at = from + rel;
                let line = context_of(data, at, needle.len());
                out.entry(format!("leak:{}:{}", sink, classify(&line, k))).or_insert_with(|| format!("{} form of a delivered key found in {} ({}): {}", form, sink, name, line));
                from = at + needle.len();
                hits += 1;
                if hits > 200 {
                    break;
                }
            }
        }
    }
}

fn do_client(c: &Client, responses: &mut Vec<(String, Vec<u8>)>) {
    let me = std::process::id();
    let entry = |uid: u64, root: bool, ip: [u8; 4], port: u16| verif_hooks::Entry { logon_id: uid, process_id: me, is_admin: if root { 1 } else { 0 }, destination_ipv4: u32::from_ne_bytes(ip), destination_port: port.to_be() };
    let (record, wire, method, label): (Option<verif_hooks::Entry>, Vec<u8>, &str, String) = match c {
        Client::Relayed { path } => (Some(entry(1001, false, [169, 254, 169, 254], 80)), crate::rawhttp::request_head("GET", path, &[("Host".into(), b"169.254.169.254".to_vec()), ("Metadata".into(), b"true".to_vec())]), "GET", format!("relayed {}", path)),
        Client::Denied => (Some(entry(1001, false, [168, 63, 129, 16], 80)), crate::rawhttp::request_head("GET", "/machine?comp=goalstate", &[("Host".into(), b"168.63.129.16".to_vec())]), "GET", "denied".into()),
        Client::Direct => (None, crate::rawhttp::request_head("GET", "/metadata/instance", &[("Host".into(), b"x".to_vec())]), "GET", "direct".into()),
        Client::Provision { notify, tick, metadata_header } => {
            let now = std::time::SystemTime::now().duration_since(std::time::UNIX_EPOCH).unwrap().as_nanos() as i128;
            let t = match tick {
                0 => 1i128,
                1 => now,
                _ => now + 3_600_000_000_000,
            };
            let mut h: Vec<(String, Vec<u8>)> = vec![("Host".into(), b"127.0.0.1".to_vec()), ("x-ms-azure-time_tick".into(), t.to_string().into_bytes())];
            if *metadata_header {
                h.push(("Metadata".into(), b"True".to_vec()));
            }
            if *notify {
                h.push(("x-ms-azure-notify".into(), b"provision".to_vec()));
            }
            (None, crate::rawhttp::request_head("GET", "/provision", &h), "GET", "provision".into())
        }
    };
    if let Ok(mut conn) = crate::rig::open_conn(record, 0) {
        let _ = conn.send(&wire);
        if let Ok(r) = conn.read(method, Duration::from_secs(10)) {
            let mut all = r.head.raw.clone();
            all.extend_from_slice(&r.body);
            responses.push((label, all));
        }
        crate::rawhttp::close_abortive(conn.stream);
    }
}

fn start_proxy_and_status(rig: &KeeperRig, a: &Agent) {
    let proxy = azure_proxy_agent::proxy::proxy_server::ProxyServer::new(3080, &a.shared);
    rig.rt.spawn(async move { proxy.start().await });
    let task = azure_proxy_agent::proxy_agent_status::ProxyAgentStatusTask::new(
        Duration::from_millis(20),
        PathBuf::from(format!("{}/status", crate::ns::RUN_ROOT)),
        a.shared.get_cancellation_token(),
        a.shared.get_key_keeper_shared_state(),
        a.shared.get_agent_status_shared_state(),
    );
    rig.rt.spawn(async move { task.start().await });
    for _ in 0..300 {
        if std::net::TcpStream::connect("127.0.0.1:3080").is_ok() {
            return;
        }
        std::thread::sleep(Duration::from_millis(10));
    }
}

pub fn eval(rig: &KeeperRig, env: &mut Env, known: &crate::report::Known, case: &Case, stats: &mut Stats) -> Outcome {
    rig.host.with(|s| {
        s.issued.clear();
        s.delivered.clear();
        s.latched = None;
        s.status_fault = None;
        s.acquire_faults.clear();
        s.attest_faults.clear();
        s.pending = None;
        s.key_shape = KeyShape::Good;
        s.signature_failures.clear();
        s.doc = Some(case.first.to_json());
    });
    let timeout = Duration::from_secs(20);
    let mut link_target: Option<PathBuf> = None;
    if case.key_dir_is_link {
        let (kd, _) = rig.next_dirs();
        let real = kd.with_file_name(format!("{}-real", kd.file_name().unwrap().to_string_lossy()));
        let _ = std::fs::create_dir_all(&real);
        let _ = std::fs::set_permissions(&real, std::fs::Permissions::from_mode(0o755));
        let _ = std::fs::remove_dir_all(&kd);
        if std::os::unix::fs::symlink(&real, &kd).is_ok() {
            stats.class("key-directory:symbolic-link-to-an-ordinary-directory");
            link_target = Some(real);
        }
    }
    let mut agent = rig.start_agent(None);
    // the folder the path-like key ids of KeyShape::GuidPathExisting point to ("../logs" relative to the key directory)
    let beside = agent.key_dir.parent().map(|p| p.join("logs")).unwrap_or_default();
    let _ = std::fs::create_dir_all(&beside);
    start_proxy_and_status(rig, &agent);
    let mut responses: Vec<(String, Vec<u8>)> = Vec::new();
    let mut latched_once = false;
    let mut interesting_after_latch = false;
    let mut inconclusive: Option<String> = None;
    if let Err(e) = rig.run_step(Step { keep_doc: true, ..Default::default() }, 2, timeout) {
        inconclusive = Some(e);
    }
    for (i, st) in case.steps.iter().enumerate() {
        if inconclusive.is_some() {
            break;
        }
        if rig.host.with(|s| s.latched.is_some()) {
            latched_once = true;
        }
        match st {
            St::Doc { doc, rotate, acquire_faults, attest_faults, key_shape } => {
                if latched_once && (!acquire_faults.is_empty() || !attest_faults.is_empty() || *key_shape != KeyShape::Good) {
                    interesting_after_latch = true;
                }
                stats.class(match key_shape {
                    KeyShape::Good => "step:document",
                    _ => "step:document+malformed-key-response",
                });
                // a malformed key can never be attested: the poll loop keeps failing, which is the point; wait for a few polls only
                let polls_needed = 2;
                let r = if *key_shape != KeyShape::Good {
                    rig.host.with(|s| {
                        s.pending = Some(Step { doc: Some(doc.to_json()), keep_doc: false, status_fault: None, acquire_faults: acquire_faults.clone(), attest_faults: attest_faults.clone(), rotate: true, rotate_foreign: false, key_shape: Some(key_shape.clone()) });
                    });
                    std::thread::sleep(Duration::from_millis(120));
                    // back to good keys so that the history can go on
                    rig.run_step(Step { keep_doc: true, key_shape: Some(KeyShape::Good), ..Default::default() }, polls_needed, timeout)
                } else {
                    rig.run_step(Step { doc: Some(doc.to_json()), keep_doc: false, status_fault: None, acquire_faults: acquire_faults.clone(), attest_faults: attest_faults.clone(), rotate: *rotate, rotate_foreign: false, key_shape: Some(KeyShape::Good) }, polls_needed, timeout)
                };
                if let Err(e) = r {
                    inconclusive = Some(format!("step {}: {}", i, e));
                }
            }
            St::StatusFailure { fault } => {
                stats.class("step:status-failure");
                if latched_once {
                    interesting_after_latch = true;
                }
                if let Err(e) = rig.run_step(Step { keep_doc: true, status_fault: Some(fault.clone()), ..Default::default() }, 3, timeout).and_then(|_| rig.run_step(Step { keep_doc: true, ..Default::default() }, 2, timeout)) {
                    inconclusive = Some(format!("step {}: {}", i, e));
                }
            }
            St::Client(c) => {
                stats.class(match c {
                    Client::Relayed { .. } => "client:relayed",
                    Client::Denied => "client:denied",
                    Client::Direct => "client:direct",
                    Client::Provision { .. } => "client:provision",
                });
                if latched_once && !matches!(c, Client::Relayed { .. }) {
                    interesting_after_latch = true;
                }
                do_client(c, &mut responses);
            }
            St::RemoveKeyDir => {
                stats.class("step:key-directory-removed-while-running");
                let _ = std::fs::remove_dir_all(&agent.key_dir);
                if let Err(e) = rig.run_step(Step { keep_doc: true, rotate: true, key_shape: Some(KeyShape::Good), ..Default::default() }, 2, timeout) {
                    inconclusive = Some(format!("step {} (key directory removed): {}", i, e));
                }
            }
            St::AbandonedReaders(n) => {
                stats.class("step:key-readers-abandoned-after-their-first-poll");
                let ks = agent.shared.get_key_keeper_shared_state();
                rig.rt.block_on(async {
                    for _ in 0..*n {
                        // `biased`: the question is polled once (it is queued to the state task), then the other branch wins and the
                        // question - with the receiving end of its answer - is dropped
                        tokio::select! { biased; _ = ks.get_current_key_guid_and_value() => {}, _ = std::future::ready(()) => {} }
                        tokio::select! { biased; _ = ks.get_current_key_value() => {}, _ = std::future::ready(()) => {} }
                        tokio::select! { biased; _ = ks.get_current_key_guid() => {}, _ = std::future::ready(()) => {} }
                        tokio::select! { biased; _ = ks.get_current_key_incarnation() => {}, _ = std::future::ready(()) => {} }
                        // let the state task get to the abandoned questions
                        for _ in 0..20 {
                            tokio::task::yield_now().await;
                        }
                        tokio::time::sleep(Duration::from_millis(2)).await;
                        // and it still answers
                        let _ = ks.get_current_key_guid().await;
                    }
                });
            }
            St::Restart => {
                stats.class("step:restart");
                let (k, l) = (agent.key_dir.clone(), agent.log_dir.clone());
                rig.stop_agent(&agent);
                std::thread::sleep(Duration::from_millis(30));
                agent = rig.start_agent(Some((&k, &l)));
                start_proxy_and_status(rig, &agent);
                if let Err(e) = rig.run_step(Step { keep_doc: true, ..Default::default() }, 2, timeout) {
                    inconclusive = Some(format!("step {} (restart): {}", i, e));
                }
            }
        }
    }
    if rig.host.with(|s| s.latched.is_some()) {
        latched_once = true;
    }
    // let the loggers flush (event logger: 10 ms, status task: 20 ms)
    std::thread::sleep(Duration::from_millis(60));
    rig.stop_agent(&agent);
    std::thread::sleep(Duration::from_millis(30));

    let keys: Vec<String> = rig.host.with(|s| s.delivered.clone());
    stats.class_n("keys-delivered", keys.len() as u64);
    let mut leaks: std::collections::BTreeMap<String, String> = Default::default();
    let mut scanned_bytes = 0u64;
    // 1-4: directories
    let logs_dir = azure_proxy_agent::common::config::get_logs_dir();
    let events_dir = azure_proxy_agent::common::config::get_events_dir();
    let status_dir = PathBuf::from(format!("{}/status", crate::ns::RUN_ROOT));
    let mut sinks: Vec<(&str, PathBuf)> = Vec::new();
    for (label, d) in [("log-file", &logs_dir), ("event-file", &events_dir), ("status-file", &status_dir), ("key-dir-non-key-file", &agent.key_dir)] {
        let mut files = Vec::new();
        walk(d, &mut files);
        for f in files {
            if label == "key-dir-non-key-file" && f.extension().map(|e| e == "key").unwrap_or(false) {
                continue;
            }
            let l = if label == "log-file" && f.file_name().map(|n| n.to_string_lossy().starts_with("AuthorizationRules_")).unwrap_or(false) { "rule-dump" } else { label };
            sinks.push((l, f));
        }
    }
    // anything else next to the key directory (a key id is used as a file name: it must not lead outside)
    if let Some(parent) = agent.key_dir.parent() {
        let mut files = Vec::new();
        walk(parent, &mut files);
        for f in files {
            if !f.starts_with(&agent.key_dir) && !link_target.as_ref().map(|t| f.starts_with(t)).unwrap_or(false) {
                sinks.push(("file-outside-the-key-directory", f));
            }
        }
    }
    for (label, f) in &sinks {
        if let Ok(data) = std::fs::read(f) {
            scanned_bytes += data.len() as u64;
            scan(label, &f.display().to_string(), &data, &keys, &mut leaks);
        }
    }
    // 5: console stand-in, 6: stdout/stderr (only what this history appended)
    let console = format!("{}/console", crate::ns::RUN_ROOT);
    for (label, path, offset) in [("console", PathBuf::from(&console), &mut env.console_offset), ("stdout-stderr", env.stdio_log.clone().unwrap_or_default(), &mut env.stdio_offset)] {
        if let Ok(data) = std::fs::read(&path) {
            let from = (*offset as usize).min(data.len());
            scanned_bytes += (data.len() - from) as u64;
            scan(label, &path.display().to_string(), &data[from..], &keys, &mut leaks);
            *offset = data.len() as u64;
        }
    }
    // 7: everything returned to local clients
    for (label, data) in &responses {
        scanned_bytes += data.len() as u64;
        scan("client-response", label, data, &keys, &mut leaks);
    }
    stats.class_n("sum_bytes-scanned", scanned_bytes);
    // key directory restricted
    let mut dir_problem = None;
    if let Ok(md) = std::fs::metadata(&agent.key_dir) {
        let mode = md.permissions().mode() & 0o777;
        if mode != 0o700 || md.uid() != 0 {
            dir_problem = Some(format!("key directory {} has mode {:o} owner {}", agent.key_dir.display(), mode, md.uid()));
        }
    }
    // clean the sinks for the next history
    for (_, f) in &sinks {
        let _ = std::fs::remove_file(f);
    }
    let _ = std::fs::remove_dir_all(&agent.key_dir);
    let _ = std::fs::remove_file(&agent.key_dir);
    if let Some(t) = &link_target {
        let _ = std::fs::remove_dir_all(t);
    }
    let _ = std::fs::remove_dir_all(&agent.log_dir);
    let _ = std::fs::remove_dir_all(&beside);
    if let Some(parent) = agent.key_dir.parent() {
        let _ = std::fs::remove_dir_all(parent.join("exported"));
    }

    if latched_once {
        stats.class("history:key-latched");
    }
    if latched_once && interesting_after_latch {
        stats.nontrivial_hash(h64(case));
    }
    stats.sample(|| serde_json::json!({"first": case.first.to_json(), "steps": case.steps.iter().map(|s| match s {
        St::Doc { rotate, acquire_faults, attest_faults, key_shape, .. } => serde_json::json!({"doc": "...", "rotate": rotate, "acquire_faults": acquire_faults, "attest_faults": attest_faults, "key_shape": key_shape}),
        other => serde_json::to_value(other).unwrap(),
    }).collect::<Vec<_>>(), "keys_delivered": keys.len(), "bytes_scanned": scanned_bytes}));
    // known findings are counted and tolerated by exact signature; any other leak is a violation
    let mut unknown: Option<(String, String)> = None;
    for (sig, d) in leaks {
        if known.is_known(&sig) {
            stats.known(&sig);
        } else if unknown.is_none() {
            unknown = Some((sig, d));
        }
    }
    if let Some((sig, d)) = unknown {
        return Outcome::fail(sig, d);
    }
    if let Some(d) = dir_problem {
        return Outcome::fail("keystore:directory-not-restricted", d);
    }
    if let Some(e) = inconclusive {
        if !stats.is_frozen() {
            stats.inconclusive.push(e);
        }
    }
    Outcome::Pass
}
