//! C13 — no input can crash a handler or a background task.
//! Part A (pure): the public functions that implement the fixed-offset truncations and the header
//! canonicalisation, driven with strings whose multi-byte characters straddle the offsets.
//! Part B (end to end): hostile requests and hostile caller identities through the real listener.

use crate::report::{h64, Stats};
use crate::runner::Outcome;
use azure_proxy_agent::shared_state::agent_status_wrapper::{AgentStatusModule, AgentStatusSharedState};
use proptest::prelude::*;
use serde::{Deserialize, Serialize};

/// A string built so that a character of `width` bytes starts `back` bytes before byte offset `offset`
/// (back in 1..width puts the offset strictly inside the character), followed by a tail.
#[derive(Clone, Debug, Serialize, Deserialize, Hash)]
pub struct Straddle {
    pub offset: usize,
    pub width: u8,
    pub back: u8,
    pub filler: char,
    pub tail: String,
    /// subtract this from the prefix (so that a wrapper that adds a known number of bytes still hits the offset)
    pub lead: usize,
}

pub fn wide_char(width: u8) -> char {
    match width {
        2 => 'é',
        3 => '漢',
        _ => '🦀',
    }
}

impl Straddle {
    pub fn build(&self) -> String {
        let w = self.width.clamp(2, 4) as usize;
        let back = (self.back as usize % w).max(0);
        let prefix_len = self.offset.saturating_sub(back).saturating_sub(self.lead);
        let mut s = String::with_capacity(prefix_len + 8 + self.tail.len());
        for _ in 0..prefix_len {
            s.push(self.filler);
        }
        s.push(wide_char(self.width));
        s.push_str(&self.tail);
        s
    }
}

pub fn straddle(offsets: &'static [usize]) -> impl Strategy<Value = Straddle> {
    (
        prop::sample::select(offsets.to_vec()),
        2u8..5,
        0u8..4,
        prop::sample::select(vec!['a', ' ', '"', '\\', 'x']),
        prop_oneof![Just(String::new()), "[a-z é漢🦀]{0,40}", Just("é".repeat(3000))],
        prop_oneof![4 => Just(0usize), 1 => 0usize..64],
    )
        .prop_map(|(offset, width, back, filler, tail, lead)| Straddle { offset, width, back, filler, tail, lead })
}

#[derive(Clone, Debug, Serialize, Deserialize, Hash)]
pub enum PureCase {
    WriteEvent(Straddle),
    StatusMessage(Straddle),
    /// header values as raw bytes (obs-text allowed by HTTP and by the http types)
    SigInput { headers: Vec<(String, Vec<u8>)>, query: String },
}

pub fn pure_strategy() -> impl Strategy<Value = PureCase> {
    prop_oneof![
        3 => straddle(&[4096]).prop_map(PureCase::WriteEvent),
        3 => straddle(&[1024]).prop_map(PureCase::StatusMessage),
        3 => (prop::collection::vec((crate::gen::sel(crate::props::c04::HNAMES), prop::collection::vec(prop_oneof![3 => 0x21u8..0x7f, 1 => 0x80u8..=0xff], 0..12)), 0..4), "[a-z=&%0-9]{0,20}")
            .prop_map(|(headers, query)| PureCase::SigInput { headers, query }),
    ]
}

/// the same case space, addressed by the words of a fuzz input (see `crate::words`)
pub fn pure_from_words(w: &mut crate::words::Words) -> PureCase {
    use crate::words::draw;
    let h = w.next();
    match h % 3 {
        0 => PureCase::WriteEvent(draw(&straddle(&[4096]), w.next())),
        1 => PureCase::StatusMessage(draw(&straddle(&[1024]), w.next())),
        _ => {
            let n = (h >> 8) % 4;
            let value = prop::collection::vec(prop_oneof![3 => 0x21u8..0x7f, 1 => 0x80u8..=0xff], 0..12);
            let headers = (0..n).map(|_| (draw(&crate::gen::sel(crate::props::c04::HNAMES), w.next()), draw(&value, w.next()))).collect();
            PureCase::SigInput { headers, query: draw(&"[a-z=&%0-9]{0,20}", w.next()) }
        }
    }
}

pub const RULE_PURE: &str = "part A: direct calls of event_logger::write_event (messages with a 2/3/4-byte character placed at every in-character position around byte 4096), AgentStatusSharedState::set_module_status_message + get_module_status (the same around byte 1024) and hyper_client::as_sig_input with header values made of arbitrary visible and obs-text bytes (0x80-0xFF, legal in HTTP field values). oracle: no panic; the truncated status message is valid and bounded. non-trivial: the offset lies strictly inside a multi-byte character, or a header value contains an obs-text byte.";

thread_local! {
    static RT: tokio::runtime::Runtime = tokio::runtime::Builder::new_current_thread().enable_all().build().unwrap();
    static STATUS: std::cell::RefCell<Option<AgentStatusSharedState>> = const { std::cell::RefCell::new(None) };
}

pub fn eval_pure(case: &PureCase, stats: &mut Stats) -> Outcome {
    match case {
        PureCase::WriteEvent(s) => {
            let msg = s.build();
            let inside = s.back % s.width.clamp(2, 4) != 0 && s.lead == 0;
            stats.class(if inside { "write_event:offset-inside-character" } else { "write_event:offset-on-boundary" });
            if inside {
                stats.nontrivial_hash(h64(case));
            }
            stats.sample(|| serde_json::json!({"write_event_message_bytes": msg.len(), "char_width": s.width, "char_starts_before_4096_by": s.back % s.width.clamp(2, 4)}));
            proxy_agent_shared::telemetry::event_logger::write_event(proxy_agent_shared::logger::LoggerLevel::Info, msg, "verif", "verif", "verif");
            Outcome::Pass
        }
        PureCase::StatusMessage(s) => {
            let msg = s.build();
            let inside = s.back % s.width.clamp(2, 4) != 0 && s.lead == 0;
            stats.class(if inside { "status_message:offset-inside-character" } else { "status_message:offset-on-boundary" });
            if inside {
                stats.nontrivial_hash(h64(case));
            }
            stats.sample(|| serde_json::json!({"status_message_bytes": msg.len(), "char_width": s.width, "char_starts_before_1024_by": s.back % s.width.clamp(2, 4)}));
            let out = RT.with(|rt| {
                rt.block_on(async {
                    let st = STATUS.with(|c| c.borrow_mut().get_or_insert_with(AgentStatusSharedState::start_new).clone());
                    let _ = st.set_module_status_message(msg.clone(), AgentStatusModule::KeyKeeper).await;
                    st.get_module_status(AgentStatusModule::KeyKeeper).await
                })
            });
            if msg.len() <= 1024 && out.message != msg {
                return Outcome::fail("status:short-message-altered", format!("{} bytes in, {} bytes out", msg.len(), out.message.len()));
            }
            if msg.len() > 1024 && (out.message.len() > 1024 + 8 || !msg.starts_with(out.message.trim_end_matches("..."))) {
                return Outcome::fail("status:truncation-not-a-bounded-prefix", format!("{} bytes in, {} bytes out", msg.len(), out.message.len()));
            }
            Outcome::Pass
        }
        PureCase::SigInput { headers, query } => {
            let mut b = http::Request::builder().method("GET").uri(format!("/x?{}", query));
            let mut obs = false;
            for (n, v) in headers {
                match http::HeaderValue::from_bytes(v) {
                    Ok(hv) => {
                        if v.iter().any(|x| *x >= 0x80) {
                            obs = true;
                        }
                        b = b.header(n.as_str(), hv);
                    }
                    Err(_) => {}
                }
            }
            let parts = match b.body(()) {
                Ok(r) => r.into_parts().0,
                Err(_) => return Outcome::Pass,
            };
            stats.class(if obs { "sig_input:obs-text-header-value" } else { "sig_input:ascii-header-values" });
            if obs {
                stats.nontrivial_hash(h64(case));
            }
            stats.sample(|| serde_json::json!({"as_sig_input_headers": headers.iter().map(|(n, v)| (n.clone(), format!("{:?}", String::from_utf8_lossy(v)))).collect::<Vec<_>>()}));
            let seen_target = parts.uri.path_and_query().map(|pq| pq.as_str().to_string()).unwrap_or_default();
            let hdrs: Vec<(String, Vec<u8>)> = parts.headers.iter().map(|(n, v)| (n.as_str().to_string(), v.as_bytes().to_vec())).collect();
            let mut names: Vec<&String> = hdrs.iter().map(|(n, _)| n).collect();
            names.sort();
            let is_set = names.windows(2).all(|w| w[0] != w[1]);
            let got = azure_proxy_agent::common::hyper_client::as_sig_input(parts, hyper::body::Bytes::new());
            if is_set {
                use crate::refmodel::canon::{canon, ParamOrder};
                let a = canon("GET", &seen_target, &hdrs, b"", ParamOrder::Concat);
                let b = canon("GET", &seen_target, &hdrs, b"", ParamOrder::Tuple);
                if got != a && got != b {
                    return Outcome::fail("canon:header-bytes-not-signed-as-received", format!("agent {:?} reference {:?}", String::from_utf8_lossy(&got), String::from_utf8_lossy(&a)));
                }
            }
            Outcome::Pass
        }
    }
}

// ================================================================================================
// Part B: through the real listener

use crate::gen::{GAssign, GDoc, GIdent, GPriv, GRole};
use crate::ns::Helpers;
use crate::rig::Rig;
use azure_proxy_agent::redirector::verif_hooks;
use std::time::Duration;

#[derive(Clone, Debug, Serialize, Deserialize, Hash)]
pub struct HostileReq {
    pub method: String,
    /// 0 origin-form, 1 absolute-form, 2 asterisk (OPTIONS *), 3 very long origin-form
    pub target_kind: u8,
    pub path: String,
    /// bytes appended to the path as %XX escapes (any byte value: an escape need not decode to UTF-8)
    #[serde(default)]
    pub pct: Vec<u8>,
    pub long_len: usize,
    pub version10: bool,
    /// header lines: name + raw value bytes (obs-text allowed); may repeat names
    pub headers: Vec<(String, Vec<u8>)>,
    pub repeat_header: Option<(u8, u16)>,
    pub body: Vec<u8>,
    /// 0 none, 1 content-length, 2 chunked, 3 chunked with extensions and a trailer, 4 Expect: 100-continue + content-length
    pub framing: u8,
}

#[derive(Clone, Debug, Serialize, Deserialize, Hash)]
pub struct E2eCase {
    /// caller: executable file name, argv tail
    pub exe_name: String,
    pub wide: u8,
    pub wide_count: usize,
    pub shift: usize,
    pub uid: u64,
    pub is_root: bool,
    /// 0 IMDS allowed, 1 IMDS enforce-deny, 2 IMDS audit-deny, 3 WireServer (elevation decides)
    pub policy: u8,
    pub key: bool,
    pub requests: Vec<HostileReq>,
    /// 0 the caller is alive; 1 it has exited and is not reaped yet (a zombie: no exe link, empty command line); 2 its pid is gone
    #[serde(default)]
    pub caller_state: u8,
    /// that many further connections send a complete request and hang up 0-600 microseconds later, without reading
    #[serde(default)]
    pub hangups: u16,
    /// how the host answers relayed requests: 0 plainly; 1 chunked with a trailer section; 2 chunked, several trailer fields, 1-byte chunks
    #[serde(default)]
    pub host_reply: u8,
    /// policy 6: this generated rule document (dangling and duplicate names, any mode) is installed for IMDS
    #[serde(default)]
    pub gen_doc: Option<GDoc>,
}

fn tchar_method() -> impl Strategy<Value = String> {
    prop_oneof![
        6 => crate::gen::sel(crate::gen::REQ_METHODS),
        1 => Just("PROPFIND".to_string()),
        1 => Just("M-SEARCH".to_string()),
        1 => "[A-Z!#$%&'*+.^_`|~-]{1,40}",
    ]
}

fn hostile_value() -> impl Strategy<Value = Vec<u8>> {
    prop_oneof![
        3 => prop::collection::vec(0x21u8..0x7f, 0..20),
        3 => prop::collection::vec(prop_oneof![2 => 0x21u8..0x7f, 2 => 0x80u8..=0xff, 1 => Just(b' '), 1 => Just(b'\t')], 1..30).prop_map(|mut v| { v.insert(0, b'x'); v.push(b'y'); v }),
        1 => Just("caf\u{e9} \u{6f22}\u{5b57} \u{1f980}".as_bytes().to_vec()),
        1 => (1000usize..9000).prop_map(|n| vec![b'v'; n]),
    ]
}

fn hostile_req() -> impl Strategy<Value = HostileReq> {
    (
        tchar_method(),
        prop_oneof![6 => Just(0u8), 1 => Just(1u8), 1 => Just(2u8), 1 => Just(3u8)],
        (crate::gen::sel(crate::gen::PATHS), prop_oneof![3 => Just(vec![]), 2 => prop::collection::vec(any::<u8>(), 1..6), 1 => prop::sample::select(vec![vec![0xffu8], vec![0x80], vec![0xc3], vec![0xc3, 0xa9], vec![0x2e, 0x2e], vec![0x00], vec![0xed, 0xa0, 0x80]])]),
        prop_oneof![Just(2000usize), Just(8000), Just(65000), Just(66000), Just(120_000), 1000usize..70_000],
        prop::bool::weighted(0.1),
        prop::collection::vec((crate::gen::sel(crate::gen::REQ_HNAMES), hostile_value()), 0..6),
        prop::option::weighted(0.2, (0u8..10, prop_oneof![Just(2u16), Just(50), Just(99), Just(100), Just(101), Just(150)])),
        crate::gen::small_body(),
        prop_oneof![4 => Just(0u8), 3 => Just(1u8), 2 => Just(2u8), 1 => Just(3u8), 1 => Just(4u8)],
    )
        .prop_map(|(method, target_kind, (path, pct), long_len, version10, headers, repeat_header, body, framing)| HostileReq { method, target_kind, path, pct, long_len, version10, headers, repeat_header, body, framing })
}

pub fn e2e_strategy() -> impl Strategy<Value = E2eCase> {
    (
        prop_oneof![3 => Just("curl".to_string()), 1 => Just("caf\u{e9}-\u{6f22}".to_string()), 1 => Just("\u{1f980}".repeat(20))],
        2u8..5,
        prop_oneof![2 => Just(0usize), 2 => 300usize..2200, 1 => 2200usize..6000],
        0usize..8,
        prop::sample::select(vec![0u64, 1001, 1004, 1005, 1006]),
        any::<bool>(),
        prop_oneof![4 => 0u8..4, 3 => 4u8..7],
        any::<bool>(),
        (prop::collection::vec(hostile_req(), 1..4), prop_oneof![6 => Just(0u8), 2 => Just(1u8), 1 => Just(2u8)], prop_oneof![27 => Just(0u16), 1 => Just(40u16), 1 => Just(160u16), 1 => Just(400u16)], prop_oneof![6 => Just(0u8), 1 => Just(1u8), 1 => Just(2u8)], crate::gen::gdoc()),
    )
        .prop_map(|(exe_name, wide, wide_count, shift, uid, is_root, policy, key, (requests, caller_state, hangups, host_reply, doc))| E2eCase { exe_name, wide, wide_count, shift, uid, is_root, policy, key, requests, caller_state, hangups, host_reply, gen_doc: if policy == 6 { Some(doc) } else { None } })
}

pub const RULE_E2E: &str = "part B: through the real listener with a key latched in half of the cases: (i) requests that are syntactically valid by RFC 9112 - extension methods, origin/absolute/asterisk targets, paths ending in arbitrary %XX escapes (any byte value, e.g. %FF, %80, a lone %C3, %00), targets of 1-120 KB, HTTP/1.0, header values with obs-text bytes 0x80-0xFF and tabs, values of 1-9 KB, one header repeated 2-150 times (around hyper's 100-header limit), bodies as Content-Length / chunked / chunked with extensions and a trailer / Expect: 100-continue; (ii) callers = freshly exec'ed helper processes whose executable name and argv contain long runs of 2/3/4-byte characters (300-6000 of them, shifted by 0-7 ASCII bytes) so that the connection-summary JSON and the 'Block unauthorized request' text cross bytes 4096 inside a character, users with multi-byte names from the generated passwd; in a third of the cases the caller has exited by the time its connection is accepted (not yet reaped: no exe link and an empty command line; or its pid is gone); IMDS under allow / enforce-deny / audit-deny rule sets, under rule documents whose role, privilege and identity references do not all resolve, under generated rule documents, and WireServer; in a quarter of the cases the host answers relayed requests chunked with a trailer section; in a tenth of the cases 40-400 further keep-alive connections complete one exchange, send a second complete request and are reset 0-600 microseconds later, before its response. oracle: the process-wide panic hook stays empty; every request receives a status line; after each case a canary request on a fresh attributed connection is relayed (200) and, every 25th case, status.json written by the real status task has advanced. non-trivial: a caller with >= 300 wide characters, or a header value with an obs-text byte, or a repeated header >= 99 times, or a target >= 60 KB; distinct by hash of the case.";

fn deny_all(mode: &str) -> GDoc {
    GDoc {
        mode: mode.into(),
        default_access: "deny".into(),
        id: format!("c13-{}", mode),
        rules_present: true,
        privileges: Some(vec![GPriv { name: "p".into(), path: "/".into(), query: None }]),
        roles: Some(vec![GRole { name: "r".into(), privileges: vec!["p".into()] }]),
        identities: Some(vec![GIdent { name: "i".into(), user: Some("nobody-at-all".into()), group: None, exe: None, proc_name: None }]),
        assignments: Some(vec![GAssign { role: "r".into(), identities: vec!["i".into()] }]),
    }
}

/// a rule document whose references do not all resolve: a role that lists an undefined privilege, an assignment that lists an
/// undefined identity before a defined one, an assignment of an undefined role (the host publishes it; the agent lives with it)
fn dangling_doc(mode: &str) -> GDoc {
    GDoc {
        mode: mode.into(),
        default_access: "deny".into(),
        id: format!("c13-dangling-{}", mode),
        rules_present: true,
        privileges: Some(vec![GPriv { name: "p".into(), path: "/".into(), query: None }]),
        roles: Some(vec![GRole { name: "r".into(), privileges: vec!["p-undefined".into(), "p".into()] }]),
        identities: Some(vec![GIdent { name: "i".into(), user: Some("nobody-at-all".into()), group: None, exe: None, proc_name: None }]),
        assignments: Some(vec![GAssign { role: "r".into(), identities: vec!["i-undefined".into(), "i".into()] }, GAssign { role: "r-undefined".into(), identities: vec!["i".into()] }]),
    }
}

pub struct E2eState {
    pub status: crate::props::c11::StatusTask,
    pub cases: u64,
    pub last_stamp: String,
}

fn wire_of(r: &HostileReq) -> Vec<u8> {
    let mut escaped = r.path.clone();
    if !r.pct.is_empty() {
        escaped.push('/');
        for b in &r.pct {
            escaped.push_str(&format!("%{:02X}", b));
        }
    }
    let r_path = escaped;
    let target = match r.target_kind {
        1 => format!("http://169.254.169.254{}", r_path),
        2 => "*".to_string(),
        3 => {
            let mut t = r_path.clone();
            t.push_str("?q=");
            while t.len() < r.long_len {
                t.push_str("abcdefghij0123456789");
            }
            t
        }
        _ => r_path.clone(),
    };
    let method = if r.target_kind == 2 { "OPTIONS".to_string() } else { r.method.clone() };
    let mut out = Vec::new();
    out.extend_from_slice(format!("{} {} {}\r\n", method, target, if r.version10 { "HTTP/1.0" } else { "HTTP/1.1" }).as_bytes());
    out.extend_from_slice(b"Host: 169.254.169.254\r\n");
    for (n, v) in &r.headers {
        out.extend_from_slice(n.as_bytes());
        out.extend_from_slice(b": ");
        out.extend_from_slice(v);
        out.extend_from_slice(b"\r\n");
    }
    if let Some((i, n)) = &r.repeat_header {
        let name = crate::gen::REQ_HNAMES[*i as usize % crate::gen::REQ_HNAMES.len()];
        for k in 0..*n {
            out.extend_from_slice(format!("{}: v{}\r\n", name, k).as_bytes());
        }
    }
    let framing = if r.version10 && (r.framing == 2 || r.framing == 3) { 1 } else { r.framing };
    match framing {
        1 => {
            out.extend_from_slice(format!("Content-Length: {}\r\n\r\n", r.body.len()).as_bytes());
            out.extend_from_slice(&r.body);
        }
        2 => {
            out.extend_from_slice(b"Transfer-Encoding: chunked\r\n\r\n");
            out.extend_from_slice(&crate::rawhttp::encode_chunked(&r.body, &[7, 64]));
        }
        3 => {
            out.extend_from_slice(b"Transfer-Encoding: chunked\r\nTrailer: x-trailer\r\n\r\n");
            let mut pos = 0;
            while pos < r.body.len() {
                let n = (r.body.len() - pos).min(9);
                out.extend_from_slice(format!("{:x};ext=1;name=\"v\"\r\n", n).as_bytes());
                out.extend_from_slice(&r.body[pos..pos + n]);
                out.extend_from_slice(b"\r\n");
                pos += n;
            }
            out.extend_from_slice(b"0\r\nx-trailer: done\r\n\r\n");
        }
        4 => {
            out.extend_from_slice(format!("Expect: 100-continue\r\nContent-Length: {}\r\n\r\n", r.body.len()).as_bytes());
            out.extend_from_slice(&r.body);
        }
        _ => out.extend_from_slice(b"\r\n"),
    }
    out
}

pub fn eval_e2e(rig: &Rig, st: &mut E2eState, case: &E2eCase, stats: &mut Stats) -> Outcome {
    let _ = crate::runner::take_panics();
    rig.mock.set_responder(Box::new(|_r| crate::mockhost::ResponseSpec::ok(b"mock")));
    // ---- the caller ----
    let mut args: Vec<String> = Vec::new();
    if case.wide_count > 0 {
        args.push(format!("{}{}", "a".repeat(case.shift), wide_char(case.wide).to_string().repeat(case.wide_count)));
    }
    let mut helper = match Helpers::spawn(&[(case.exe_name.clone(), args)]) {
        Ok(h) => h,
        Err(e) => return Outcome::fail("rig:cannot-spawn-helper", e),
    };
    match case.caller_state % 3 {
        1 => {
            // exited, not reaped: the pid is still in the process table, /proc/<pid>/exe cannot be resolved, cmdline is empty
            unsafe { libc::kill(helper.pid(0) as i32, libc::SIGKILL) };
            std::thread::sleep(Duration::from_millis(5));
            stats.class("caller:exited-not-reaped");
        }
        2 => {
            let c = &mut helper.procs[0].3;
            let _ = c.kill();
            let _ = c.wait();
            stats.class("caller:pid-gone");
        }
        _ => {}
    }
    let (imds, ws): (Option<GDoc>, Option<GDoc>) = match case.policy % 8 {
        1 => (Some(deny_all("enforce")), None),
        2 => (Some(deny_all("audit")), None),
        4 => (Some(dangling_doc("enforce")), None),
        5 => (Some(dangling_doc("audit")), None),
        6 => (case.gen_doc.clone(), None),
        _ => (None, None),
    };
    if case.policy % 8 >= 4 {
        stats.class("rules:references-that-do-not-resolve-or-generated-document");
    }
    rig.set_rules(ws.as_ref(), imds.as_ref(), None);
    if case.key {
        rig.set_key(Some(("11111111-2222-3333-4444-555555555555", "4a404e635266556a586e3272357538782f413f4428472b4b6250645367566b59")));
    } else {
        rig.set_key(None);
    }
    let (ip, port): ([u8; 4], u16) = if case.policy % 8 == 3 { ([168, 63, 129, 16], 80) } else { ([169, 254, 169, 254], 80) };
    let entry = verif_hooks::Entry { logon_id: case.uid, process_id: helper.pid(0), is_admin: if case.is_root { 1 } else { 0 }, destination_ipv4: u32::from_ne_bytes(ip), destination_port: port.to_be() };

    let wide_caller = case.wide_count >= 300;
    let mut interesting = wide_caller;
    stats.class(if wide_caller { "caller:>=300-wide-characters" } else { "caller:plain" });
    stats.class(&format!("policy:{}", ["imds-allowed", "imds-enforce-deny", "imds-audit-deny", "wireserver"][case.policy as usize % 4]));
    if case.uid >= 1005 {
        stats.class("caller:multi-byte-user-name");
    }

    // ---- the host's way of answering ----
    match case.host_reply % 3 {
        1 => {
            stats.class("host-reply:chunked-with-trailer-section");
            rig.mock.set_responder(Box::new(|_r| {
                let mut s = crate::mockhost::ResponseSpec::ok(b"hello from the host");
                s.framing = crate::mockhost::RespFraming::ChunkedTrailers(vec![5], vec![("x-ms-checksum".into(), "abc123".into())]);
                s
            }));
        }
        2 => {
            stats.class("host-reply:chunked-with-trailer-section");
            rig.mock.set_responder(Box::new(|_r| {
                let mut s = crate::mockhost::ResponseSpec::ok(b"0123456789");
                s.framing = crate::mockhost::RespFraming::ChunkedTrailers(vec![1], vec![("x-a".into(), "1".into()), ("Expires".into(), "never".into()), ("x-\u{e9}".chars().filter(|c| c.is_ascii()).collect::<String>() + "b", "v".into())]);
                s
            }));
        }
        _ => {}
    }
    // ---- the requests, one connection each ----
    for (i, r) in case.requests.iter().enumerate() {
        let wire = wire_of(r);
        let obs = r.headers.iter().any(|(_, v)| v.iter().any(|b| *b >= 0x80));
        if obs {
            stats.class("request:obs-text-header-value");
            interesting = true;
        }
        if r.repeat_header.map(|(_, n)| n >= 99).unwrap_or(false) {
            stats.class("request:header-repeated>=99");
            interesting = true;
        }
        if r.target_kind == 3 && r.long_len >= 60_000 {
            stats.class("request:target>=60KB");
            interesting = true;
        }
        if r.target_kind == 2 {
            stats.class("request:asterisk-form");
        }
        if r.pct.iter().any(|b| *b >= 0x80) {
            stats.class("request:path-escape-not-utf8");
            interesting = true;
        }
        if r.target_kind == 1 {
            stats.class("request:absolute-form");
        }
        let mut conn = match rig.open(Some(entry), 0) {
            Ok(c) => c,
            Err(e) => return Outcome::fail("rig:cannot-open-connection", e),
        };
        let method = if r.target_kind == 2 { "OPTIONS" } else { r.method.as_str() };
        let _ = conn.stream.set_write_timeout(Some(Duration::from_secs(20)));
        let send = conn.send(&wire);
        let resp = conn.read(method, Duration::from_secs(20));
        crate::rawhttp::close_abortive(conn.stream);
        let panics = crate::runner::take_panics();
        if let Some(p) = panics.first() {
            return Outcome::fail(crate::runner::panic_signature(p), format!("request {} of the case: panic in thread {} at {}: {}", i, p.thread, crate::runner::short_loc(&p.location), p.message.chars().take(300).collect::<String>()));
        }
        if let Err(e) = resp {
            return Outcome::fail(
                "robustness:valid-request-got-no-response",
                format!("request {}: {} (send result {:?}); head: {:?}", i, format!("{:?}", e).chars().take(200).collect::<String>(), send.err().map(|e| e.to_string()), String::from_utf8_lossy(&wire[..wire.len().min(300)])),
            );
        }
    }
    // ---- clients that hang up while their request is being handled ----
    if case.hangups > 0 {
        stats.class("clients-hanging-up-right-after-their-request");
        let per = (case.hangups as usize + 3) / 4;
        let ports: Vec<u16> = std::thread::scope(|sc| {
            let hs: Vec<_> = (0..4usize)
                .map(|t| {
                    sc.spawn(move || {
                        let mut ports = Vec::new();
                        let wire = crate::rawhttp::request_head("GET", "/metadata/instance?api-version=2021-02-01", &[("Host".into(), b"h".to_vec()), ("Metadata".into(), b"true".to_vec())]);
                        for i in 0..per {
                            // source ports from a range of their own (below the kernel's ephemeral range), each used once in a
                            // long while: a dead connection still queued at the listener must never share its port with a later one
                            static NEXT: std::sync::atomic::AtomicU32 = std::sync::atomic::AtomicU32::new(0);
                            let port = 12000 + (NEXT.fetch_add(1, std::sync::atomic::Ordering::Relaxed) % 18000) as u16;
                            if let Ok(mut c) = rig.open(Some(entry), port) {
                                ports.push(c.port);
                                // an established keep-alive connection (one full exchange), then a complete request and the hang-up:
                                // the handler of the second request is running when the reset arrives
                                let _ = c.send(&wire);
                                let _ = c.read("GET", Duration::from_secs(10));
                                let _ = c.send(&wire);
                                let us = ((i * 37 + t * 151) % 600) as u64;
                                if us > 0 {
                                    std::thread::sleep(Duration::from_micros(us));
                                }
                                crate::rawhttp::close_abortive(c.stream);
                            }
                        }
                        ports
                    })
                })
                .collect();
            hs.into_iter().flat_map(|h| h.join().unwrap_or_default()).collect()
        });
        // the listener still has these (dead) connections in its backlog; a later connection from one of their source
        // ports must not be opened before the listener has consumed their records, or it would lose its own record to them
        let t0 = std::time::Instant::now();
        while ports.iter().any(|p| verif_hooks::contains(*p)) && t0.elapsed() < Duration::from_millis(300) {
            std::thread::sleep(Duration::from_millis(2));
        }
        std::thread::sleep(Duration::from_millis(20));
        let _ = rig.mock.take_requests();
    }
    rig.mock.set_responder(Box::new(|_r| crate::mockhost::ResponseSpec::ok(b"mock")));
    // ---- canary ----
    rig.set_rules(None, None, None);
    let canary = crate::rig::Rec { uid_sel: 1, helper_sel: 0, is_root: false, dest: crate::rig::DestSel::Imds };
    let wire = crate::rawhttp::request_head("GET", "/canary", &[("Host".into(), b"h".to_vec())]);
    match crate::props::c01::exchange(rig, Some(&canary), &wire, "GET") {
        Ok(o) => {
            if o.status != Some(200) {
                return Outcome::fail("robustness:listener-not-serving-after-case", format!("canary status {:?} error {:?}", o.status, o.client_error));
            }
        }
        Err(e) => return Outcome::fail("robustness:listener-not-serving-after-case", e),
    }
    let panics = crate::runner::take_panics();
    if let Some(p) = panics.first() {
        return Outcome::fail(crate::runner::panic_signature(p), format!("panic in thread {} at {}: {}", p.thread, crate::runner::short_loc(&p.location), p.message.chars().take(300).collect::<String>()));
    }
    st.cases += 1;
    if st.cases % 25 == 0 && !stats.is_frozen() {
        // the status task keeps publishing
        let mut advanced = false;
        for _ in 0..200 {
            if let Ok(t) = std::fs::read_to_string(format!("{}/status.json", st.status.dir)) {
                if let Ok(v) = serde_json::from_str::<serde_json::Value>(&t) {
                    let stamp = v["timestamp"].as_str().unwrap_or("").to_string();
                    if !stamp.is_empty() && stamp != st.last_stamp {
                        st.last_stamp = stamp;
                        advanced = true;
                        break;
                    }
                }
            }
            std::thread::sleep(Duration::from_millis(10));
        }
        stats.class("status-publication-checked");
        if !advanced {
            return Outcome::fail("robustness:status-task-stopped-publishing", "status.json timestamp did not advance within 2 s".to_string());
        }
    }
    if interesting {
        stats.nontrivial_hash(h64(case));
    }
    stats.sample(|| serde_json::json!({"caller": {"exe": case.exe_name, "uid": case.uid, "wide_char_bytes": case.wide, "wide_chars": case.wide_count, "shift": case.shift}, "policy": case.policy % 8, "key": case.key,
        "requests": case.requests.iter().map(|r| serde_json::json!({"method": r.method, "target_kind": r.target_kind, "long_len": r.long_len, "headers": r.headers.iter().map(|(n, v)| format!("{}: {:?}", n, String::from_utf8_lossy(&v[..v.len().min(40)]))).collect::<Vec<_>>(), "repeat": r.repeat_header, "framing": r.framing, "body_len": r.body.len()})).collect::<Vec<_>>()}));
    Outcome::Pass
}

// ================================================================================================
// Part C: hostile host replies to the agent's own calls (keeper rig)

use crate::keeper::KeeperRig;
use crate::keyhost::{Fault, Step};
use crate::mockhost::{RespFraming, ResponseSpec};

#[derive(Clone, Debug, Serialize, Deserialize, Hash)]
pub struct HostileReply {
    /// 0 goal state, 1 shared config, 2 instance info, 3 status document, 4 key document, 5 arbitrary text
    pub base: u8,
    /// 0 intact, 1 truncate, 2 delete span, 3 drop RoleInstance elements, 4 insert non-ASCII run, 5 empty
    pub mutation: u8,
    pub at: u16,
    pub len: u16,
    /// 0 as UTF-8, 1 UTF-16LE, 2 UTF-16LE with the last byte dropped (odd length)
    pub encoding: u8,
    pub content_type: u8,
    pub status: u16,
    pub pieces: Vec<usize>,
    pub pause_us: u64,
    pub chunked: bool,
}

#[derive(Clone, Debug, Serialize, Deserialize, Hash)]
pub struct HostCase {
    pub status_reply: HostileReply,
    pub key_reply: Option<HostileReply>,
    pub goal_state: HostileReply,
    pub shared_config: HostileReply,
    pub instance: HostileReply,
}

pub const CONTENT_TYPES: &[&[u8]] = &[
    b"application/json; charset=utf-8", b"text/xml; charset=utf-8", b"text/xml; charset=utf-16", b"application/json; charset=utf-16", b"text/plain", b"application/octet-stream",
    b"text/xml; charset=utf-32", b"", b"TEXT/XML; CHARSET=UTF-16", b"application/json",
    // not visible ASCII: obs-text bytes are legal in a field value (RFC 9110 5.5) and reach the agent's parser as they are
    b"text/xml; charset=utf-16; x=\xe9\xff", b"\xfftext/plain",
];

pub fn hostile_reply(base: impl Strategy<Value = u8>) -> impl Strategy<Value = HostileReply> {
    (
        base,
        0u8..6,
        any::<u16>(),
        any::<u16>(),
        prop_oneof![3 => Just(0u8), 2 => Just(1u8), 3 => Just(2u8)],
        0u8..CONTENT_TYPES.len() as u8,
        prop_oneof![5 => Just(200u16), 1 => Just(500u16), 1 => Just(404u16), 1 => Just(503u16)],
        prop::collection::vec(prop_oneof![Just(1usize), Just(3), Just(7), Just(33), Just(4097), 1usize..300], 0..4),
        prop_oneof![2 => Just(0u64), 1 => 100u64..600],
        any::<bool>(),
    )
        .prop_map(|(base, mutation, at, len, encoding, content_type, status, pieces, pause_us, chunked)| HostileReply { base, mutation, at, len, encoding, content_type, status, pieces, pause_us, chunked })
}

pub fn host_strategy() -> impl Strategy<Value = HostCase> {
    (
        hostile_reply(prop_oneof![3 => Just(3u8), 1 => Just(5u8), 1 => Just(4u8)]),
        prop::option::weighted(0.6, hostile_reply(prop_oneof![3 => Just(4u8), 1 => Just(5u8), 1 => Just(6u8), 1 => Just(7u8)])),
        hostile_reply(prop_oneof![4 => Just(0u8), 1 => Just(5u8), 1 => Just(1u8)]),
        hostile_reply(prop_oneof![4 => Just(1u8), 1 => Just(5u8)]),
        hostile_reply(prop_oneof![4 => Just(2u8), 1 => Just(5u8)]),
    )
        .prop_map(|(status_reply, key_reply, goal_state, shared_config, instance)| HostCase { status_reply, key_reply, goal_state, shared_config, instance })
}

pub const RULE_HOST: &str = "part C: hostile host replies to the agent's own calls. For the status and key calls of the real KeyKeeper and for direct calls of WireServerClient::get_goalstate (+ get_shared_config_uri), get_shared_config and ImdsClient::get_imds_instance_info: bodies derived from the repository's canned documents (key documents also with keys of 768 and 8192 bits) or arbitrary text, mutated (truncated, span deleted, all RoleInstance elements removed, a run of 2000 multi-byte characters inserted, emptied), encoded as UTF-8 / UTF-16LE / UTF-16LE with an odd number of bytes, sent with right and wrong content types (json/xml/text/octet-stream/none, charset utf-8/utf-16/utf-32), error or success status, Content-Length (the true one, or a declared length of up to 2^64-3 in front of a short body) or chunked, in generated write pieces (odd sizes, with pauses, so that frames split inside code units). oracle: the panic hook stays empty, no spawned task ends in a panic; afterwards the module status of the key keeper can be read (status and provisioning readers), and with a good document restored the key keeper converges again and reports RUNNING. non-trivial: an odd-length UTF-16 body, a goal state without role instances, or a non-ASCII insertion; distinct by hash of the case.";

fn build_reply(r: &HostileReply) -> (ResponseSpec, bool) {
    let base: String = match r.base % 8 {
        0 => crate::canned::GOAL_STATE.replace("##ip##", "168.63.129.16").replace("##port##", "80"),
        1 => crate::canned::SHARED_CONFIG.to_string(),
        2 => crate::canned::INSTANCE.to_string(),
        3 => r#"{"authorizationScheme":"Azure-HMAC-SHA256","keyDeliveryMethod":"http","keyGuid":null,"requiredClaimsHeaderPairs":["isRoot"],"secureChannelState":"Wireserver","version":"1.0"}"#.to_string(),
        4 => r#"{"authorizationScheme":"Azure-HMAC-SHA256","guid":"9cf81e97-0316-4ad3-94a7-8ccbdee8ccbf","issued":"2021-05-05T 12:00:00Z","key":"4A404E635266556A586E3272357538782F413F4428472B4B6250645367566B59"}"#.to_string(),
        // key documents whose key is longer than the usual 256 bits (768 bits; 8192 bits): any length is a key to HMAC
        6 => format!(r#"{{"authorizationScheme":"Azure-HMAC-SHA256","guid":"9cf81e97-0316-4ad3-94a7-8ccbdee8ccbf","issued":"2021-05-05T 12:00:00Z","key":"{}"}}"#, "4A404E635266556A586E3272357538782F413F4428472B4B6250645367566B59".repeat(3)),
        7 => format!(r#"{{"authorizationScheme":"Azure-HMAC-SHA256","guid":"9cf81e97-0316-4ad3-94a7-8ccbdee8ccbf","issued":"2021-05-05T 12:00:00Z","key":"{}"}}"#, "4A404E635266556A586E3272357538782F413F4428472B4B6250645367566B59".repeat(32)),
        _ => "Service temporarily unavailable \u{2014} r\u{e9}essayez plus tard \u{1f980}".repeat(8),
    };
    let chars: Vec<char> = base.chars().collect();
    let n = chars.len().max(1);
    let at = (r.at as usize * n) >> 16;
    let len = ((r.len as usize * (n - at)) >> 16).max(1);
    let mut interesting = false;
    let text: String = match r.mutation % 6 {
        0 => base.clone(),
        1 => chars[..at].iter().collect(),
        2 => chars[..at].iter().chain(chars[(at + len).min(n)..].iter()).collect(),
        3 => {
            let mut t = base.clone();
            while let (Some(a), Some(b)) = (t.find("<RoleInstance>"), t.find("</RoleInstance>")) {
                if b < a {
                    break;
                }
                t.replace_range(a..b + "</RoleInstance>".len(), "");
                interesting = true;
            }
            t
        }
        4 => {
            interesting = true;
            let mut t: String = chars[..at].iter().collect();
            t.push_str(&"\u{6f22}\u{e9}\u{1f980}".repeat(700));
            t.extend(chars[at..].iter());
            t
        }
        _ => String::new(),
    };
    let mut bytes: Vec<u8> = match r.encoding % 3 {
        0 => text.into_bytes(),
        _ => text.encode_utf16().flat_map(|u| u.to_le_bytes()).collect(),
    };
    if r.encoding % 3 == 2 && !bytes.is_empty() {
        bytes.pop();
        interesting = true;
    }
    let ct = CONTENT_TYPES[r.content_type as usize % CONTENT_TYPES.len()];
    let mut spec = ResponseSpec::status(r.status, &bytes);
    if !ct.is_empty() {
        spec.headers.push(("Content-Type".to_string(), ct.to_vec()));
    }
    if r.chunked {
        spec.framing = RespFraming::Chunked(r.pieces.clone());
    } else if r.at % 8 == 5 {
        // a declared length that has nothing to do with the body: above isize::MAX (reserving that much is a panic, which the hook
        // sees) or 3 GB; lengths between, e.g. 2^40, make an allocation fail, which ABORTS the process: the worker would die
        // without a report (inconclusive) instead of reporting the case
        spec.framing = RespFraming::LengthDeclared([1u64 << 63, u64::MAX - 2, (1u64 << 63) + 5, (1u64 << 63) + (1 << 40), 3_000_000_000][r.len as usize % 5]);
    }
    spec.pieces = r.pieces.clone();
    spec.pause_us = r.pause_us;
    (spec, interesting || (r.encoding % 3 != 0 && String::from_utf8_lossy(ct).to_lowercase().contains("utf-16")))
}

pub fn eval_host(rig: &KeeperRig, agent: &crate::keeper::Agent, case: &HostCase, stats: &mut Stats) -> Outcome {
    use azure_proxy_agent::host_clients::{imds_client::ImdsClient, wire_server_client::WireServerClient};
    let _ = crate::runner::take_panics();
    let mut interesting = false;
    let ks = agent.shared.get_key_keeper_shared_state();
    let astat = agent.shared.get_agent_status_shared_state();
    // ---- direct calls of the host clients ----
    let (gs, i1) = build_reply(&case.goal_state);
    let (sc, i2) = build_reply(&case.shared_config);
    let (ins, i3) = build_reply(&case.instance);
    interesting |= i1 | i2 | i3;
    rig.host.with(|s| {
        s.goalstate_override = Some(gs);
        s.shared_config_override = Some(sc);
        s.instance_override = Some(ins);
    });
    let ks2 = ks.clone();
    let joined = rig.rt.block_on(async move {
        let h = tokio::spawn(async move {
            let ws = WireServerClient::new("168.63.129.16", 80, ks2.clone());
            let imds = ImdsClient::new("169.254.169.254", 80, ks2.clone());
            let mut uri = "http://168.63.129.16:80/machine/x?comp=config&type=sharedConfig&incarnation=1".to_string();
            if let Ok(g) = ws.get_goalstate().await {
                let _ = g.get_container_id();
                uri = g.get_shared_config_uri();
            }
            if let Ok(c) = ws.get_shared_config(uri).await {
                let _ = (c.get_role_name(), c.get_role_instance_name(), c.get_deployment_name());
            }
            if let Ok(i) = imds.get_imds_instance_info().await {
                let _ = (i.get_subscription_id(), i.get_vm_id(), i.get_resource_group_name(), i.get_image_origin());
            }
        });
        h.await
    });
    rig.host.with(|s| {
        s.goalstate_override = None;
        s.shared_config_override = None;
        s.instance_override = None;
    });
    let panics = crate::runner::take_panics();
    if let Some(p) = panics.first() {
        return Outcome::fail(crate::runner::panic_signature(p), format!("host-client call panicked at {}: {}", crate::runner::short_loc(&p.location), p.message.chars().take(300).collect::<String>()));
    }
    if let Err(e) = joined {
        if e.is_panic() {
            return Outcome::fail("panic:unrecorded", "a host-client task ended in a panic".to_string());
        }
    }
    // ---- the key keeper's own status / key calls ----
    let (st, i4) = build_reply(&case.status_reply);
    interesting |= i4;
    let body = String::from_utf8_lossy(&st.body).to_string();
    let ct = st.headers.iter().find(|(n, _)| n == "Content-Type").map(|(_, v)| String::from_utf8_lossy(v).to_string()).unwrap_or_default();
    // (text faults only carry text; byte-exact bodies go through the override responses above)
    let fault = if st.status == 200 { Fault::Garbage(body, ct) } else { Fault::Status(st.status, body, ct) };
    let mut acquire_faults = vec![];
    if let Some(k) = &case.key_reply {
        let (ksp, i5) = build_reply(k);
        interesting |= i5;
        let b = String::from_utf8_lossy(&ksp.body).to_string();
        let c = ksp.headers.iter().find(|(n, _)| n == "Content-Type").map(|(_, v)| String::from_utf8_lossy(v).to_string()).unwrap_or_default();
        acquire_faults.push(if ksp.status == 200 { Fault::Garbage(b, c) } else { Fault::Status(ksp.status, b, c) });
    }
    let timeout = Duration::from_secs(20);
    let mut inconclusive = None;
    if let Err(e) = rig.run_step(Step { keep_doc: true, status_fault: Some(fault), ..Default::default() }, 3, timeout) {
        inconclusive = Some(e);
    }
    // readers of the module status (status task, provisioning query)
    let prov = agent.shared.get_provision_shared_state();
    let (a2, k2) = (astat.clone(), ks.clone());
    let read = rig.rt.block_on(async move {
        tokio::spawn(async move {
            let s = a2.get_module_status(azure_proxy_agent::shared_state::agent_status_wrapper::AgentStatusModule::KeyKeeper).await;
            let p = azure_proxy_agent::provision::get_provision_state_internal(prov, a2.clone(), k2).await;
            (s.message.len(), p.error_message.len())
        })
        .await
    });
    if let Err(e) = &read {
        if e.is_panic() {
            let ps = crate::runner::take_panics();
            let sig = ps.first().map(crate::runner::panic_signature).unwrap_or_else(|| "panic:unrecorded".into());
            return Outcome::fail(sig, "reading the key keeper's module status panicked after a hostile status reply".to_string());
        }
    }
    // rotation with a hostile key reply, then recovery
    if let Err(e) = rig.run_step(Step { keep_doc: true, rotate: true, acquire_faults, ..Default::default() }, 2, timeout) {
        inconclusive = Some(e);
    }
    let panics = crate::runner::take_panics();
    if let Some(p) = panics.first() {
        return Outcome::fail(crate::runner::panic_signature(p), format!("panic in thread {} at {}: {}", p.thread, crate::runner::short_loc(&p.location), p.message.chars().take(300).collect::<String>()));
    }
    let state = rig.rt.block_on(async { astat.get_module_status(azure_proxy_agent::shared_state::agent_status_wrapper::AgentStatusModule::KeyKeeper).await });
    if format!("{:?}", state.status) != "RUNNING" && inconclusive.is_none() {
        return Outcome::fail("robustness:key-keeper-not-running-after-hostile-replies", format!("{:?}", state.status));
    }
    let latched = rig.host.with(|s| s.latched.clone());
    let guid = rig.rt.block_on(async { ks.get_current_key_guid().await.unwrap_or(None) });
    if inconclusive.is_none() && guid != latched {
        return Outcome::fail("robustness:key-keeper-did-not-recover-after-hostile-replies", format!("agent key {:?}, host latched {:?}", guid, latched));
    }
    stats.class(&format!("status-reply:encoding{}", case.status_reply.encoding % 3));
    stats.class(&format!("goal-state:mutation{}", case.goal_state.mutation % 6));
    if case.goal_state.encoding % 3 == 2 || case.shared_config.encoding % 3 == 2 || case.instance.encoding % 3 == 2 {
        stats.class("reply:odd-length-utf16");
    }
    if interesting {
        stats.nontrivial_hash(h64(case));
    }
    stats.sample(|| serde_json::to_value(case).unwrap());
    if let Some(e) = inconclusive {
        if !stats.is_frozen() {
            stats.inconclusive.push(e);
        }
    }
    Outcome::Pass
}
