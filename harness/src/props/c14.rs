//! C14 — transparency: what the host receives and what the client receives, byte for byte,
//! modulo the documented exceptions; responses go to the requests that caused them.

use crate::gen::{self, GReq};
use crate::mockhost::{Recorded, RespFraming, ResponseSpec};
use crate::report::{h64, Stats};
use crate::rig::{DestSel, Rec, Rig};
use crate::runner::Outcome;
use proptest::prelude::*;
use serde::{Deserialize, Serialize};
use std::collections::BTreeMap;
use std::sync::{Arc, Mutex};
use std::time::Duration;

#[derive(Clone, Debug, Serialize, Deserialize, Hash)]
pub struct GResp {
    /// the host ends the connection with this response: `Connection: close` on a fully framed response (sequential
    /// connections only); a well-behaved client then continues on a new connection
    #[serde(default)]
    pub host_closes: bool,
    pub status: u16,
    pub headers: Vec<(String, String)>,
    pub body: Vec<u8>,
    /// 0 content-length, 1 chunked, 2 close-delimited (only used on the last exchange of a connection)
    pub framing: u8,
    pub chunk_sizes: Vec<usize>,
    pub pieces: Vec<usize>,
    pub pause_us: u64,
    /// the host takes this long before it answers at all (a long poll, a slow back end)
    #[serde(default)]
    pub delay_ms: u32,
    /// the last bytes of the response (e.g. the chunked terminator) are written separately, after a pause
    pub tail_split: u8,
}

#[derive(Clone, Debug, Serialize, Deserialize, Hash)]
pub struct Exch {
    pub req: GReq,
    pub req_pieces: Vec<usize>,
    pub resp: GResp,
    /// the client writes the target in absolute form, `http://<recorded destination><path and query>` (a client configured
    /// to use a proxy): path and query reach the host unchanged (in either form)
    #[serde(default)]
    pub abs_form: bool,
}

#[derive(Clone, Debug, Serialize, Deserialize, Hash)]
pub struct ConnPlan {
    pub rec: Rec,
    pub exchanges: Vec<Exch>,
    /// send all requests before reading any response
    pub burst: bool,
    /// the exchange list is run this many times on the connection (keep-alive storm; > 1 only with small bodies)
    pub rounds: u8,
}

#[derive(Clone, Debug, Serialize, Deserialize, Hash)]
pub struct Case {
    pub conns: Vec<ConnPlan>,
    pub key: Option<(String, String)>,
}

pub const STATUSES: &[u16] = &[200, 200, 200, 201, 202, 204, 206, 301, 302, 304, 400, 401, 403, 404, 409, 410, 412, 429, 500, 502, 503, 599];
pub const RESP_HNAMES: &[&str] = &["content-type", "etag", "x-ms-request-id", "x-ms-version", "server", "cache-control", "x-r-a", "x-r-ab", "www-authenticate", "set-cookie", "set-cookie", "x-ms-azure-host-claims"];

fn big_or_small(max: usize) -> impl Strategy<Value = Vec<u8>> {
    prop_oneof![
        3 => Just(Vec::new()),
        6 => prop::collection::vec(any::<u8>(), 1..200),
        3 => prop::collection::vec(any::<u8>(), 200..5000),
        1 => (any::<u8>(), 5000usize..max).prop_map(|(b, n)| (0..n).map(|i| b.wrapping_add((i % 251) as u8).wrapping_mul(31)).collect()),
    ]
}

pub fn gresp() -> impl Strategy<Value = GResp> {
    (
        prop::sample::select(STATUSES.to_vec()),
        prop::collection::vec((0usize..RESP_HNAMES.len(), gen::case_mask(), gen::req_header_value()), 0..6),
        big_or_small(400_000),
        prop_oneof![3 => Just(0u8), 3 => Just(1u8), 1 => Just(2u8)],
        prop::collection::vec(1usize..3000, 0..4),
        prop::collection::vec(1usize..2000, 0..4),
        prop_oneof![4 => Just(0u64), 1 => 50u64..400],
        (prop_oneof![3 => Just(0u8), 1 => Just(5u8), 1 => Just(2u8), 1 => 1u8..40], prop::bool::weighted(0.12), prop_oneof![997 => Just(0u32), 3 => prop::sample::select(vec![1500u32, 5500, 7000])]),
    )
        .prop_map(|(status, hs, body, framing, chunk_sizes, pieces, pause_us, (tail_split, host_closes, delay_ms))| GResp {
            host_closes,
            delay_ms,
            status,
            headers: {
                let mut h: Vec<(String, String)> = hs.into_iter().map(|(i, m, v)| (gen::flip_case(RESP_HNAMES[i], m), v)).collect();
                // one response in twenty has a large (legal) header section: 20-60 fields of about 1 KB
                if tail_split % 20 == 7 {
                    let n = 20 + (pause_us as usize % 41);
                    for k in 0..n {
                        h.push((format!("x-large-{}", k), format!("{:04}-{}", k, "v".repeat(900 + (k * 7) % 300))));
                    }
                }
                h
            },
            body,
            framing,
            chunk_sizes,
            pieces,
            pause_us,
            tail_split,
        })
}

fn authorised_rec() -> impl Strategy<Value = Rec> {
    (0u8..5, 0u8..5, prop_oneof![5 => Just(DestSel::Imds), 2 => Just(DestSel::WireServer), 1 => Just(DestSel::GaPlugin), 1 => Just(DestSel::Other)]).prop_map(|(uid_sel, helper_sel, dest)| Rec {
        uid_sel,
        helper_sel,
        is_root: matches!(dest, DestSel::WireServer | DestSel::GaPlugin) || uid_sel == 0,
        dest,
    })
}

fn exch() -> impl Strategy<Value = Exch> {
    (gen::greq_with(gen::gurl_no_traversal()), big_or_small(102_400), prop::bool::weighted(0.4), prop::collection::vec(1usize..3000, 0..4), gresp(), prop::option::weighted(0.12, (any::<bool>(), gen::case_mask()))).prop_map(|(mut req, big_body, use_big, req_pieces, resp, exempt)| {
        // the two signature-exempt uploads take their own route through the proxy: relayed like everything else
        if let Some((telemetry, mask)) = exempt {
            if telemetry {
                req.method = "POST".into();
                req.url = gen::GUrl { path: gen::flip_case("/machine/", mask), query: Some(gen::flip_case("comp=telemetrydata", mask.rotate_left(7))) };
            } else {
                req.method = "PUT".into();
                req.url = gen::GUrl { path: gen::flip_case("/vmAgentLog", mask), query: None };
            }
        }
        if use_big && !matches!(req.method.as_str(), "GET" | "HEAD" | "OPTIONS" | "DELETE") {
            req.body = big_body;
            if req.body.len() > 102_400 {
                req.body.truncate(102_400);
            }
        }
        if req.url.path == "/provision" {
            req.url.path = "/provisioned".into();
        }
        // the exempt uploads have their own, larger limit (100 MiB): bodies of up to 300 KiB there, whatever
        // came first on the connection
        if exempt.is_some() && req.body.len() > 40_000 {
            let once = req.body.clone();
            req.body.extend_from_slice(&once);
            req.body.extend_from_slice(&once);
        }
        req.bind = gen::Bind { priv_sel: None, ident_sel: None };
        // repeated request header names (legal: e.g. two Accept lines): every line must reach the host, in order
        let n = req.headers.len();
        if n > 0 && req_pieces.len() % 3 == 0 {
            let (name, value) = req.headers[req_pieces.len() % n].clone();
            req.headers.push((gen::flip_case(&name, 0x2), format!("{}-again", value)));
            if req_pieces.len() % 2 == 0 {
                req.headers.insert(0, (name, "first".to_string()));
            }
        }
        let abs_form = exempt.is_none() && crate::report::h64(&(&req.url, &req.method, req.headers.len())) % 8 == 0;
        Exch { req, req_pieces, resp, abs_form }
    })
}

pub fn strategy() -> impl Strategy<Value = Case> {
    (
        prop::collection::vec((authorised_rec(), prop::collection::vec(exch(), 1..5), prop::bool::weighted(0.25), prop_oneof![5 => Just(1u8), 1 => 8u8..40]), 1..4),
        prop::option::weighted(0.5, (crate::props::c04::guid(), crate::props::c04::key_hex())),
    )
        .prop_map(|(conns, key)| Case {
            conns: conns
                .into_iter()
                .map(|(rec, mut exchanges, burst, rounds)| {
                    let n = exchanges.len();
                    for (i, e) in exchanges.iter_mut().enumerate() {
                        // a close-delimited response ends the connection: only on the last exchange
                        if e.resp.framing == 2 && i + 1 != n {
                            e.resp.framing = 1;
                        }
                    }
                    let small = exchanges.iter().all(|e| e.req.body.len() < 5000 && e.resp.body.len() < 5000 && e.resp.framing != 2);
                    let rounds = if small && !burst { rounds } else { 1 };
                    if rounds > 1 {
                        // (a slow host in every round of a keep-alive storm would only cost time)
                        for e in exchanges.iter_mut() {
                            e.resp.delay_ms = 0;
                        }
                    }
                    ConnPlan { rec, exchanges, burst, rounds }
                })
                .collect(),
            key,
        })
}

/// keep-alive storms: 4-6 connections at once, each repeating 1-3 small exchanges 20-40 times back to back,
/// responses mostly chunked in several late pieces. Aims at schedule-dependent failures of the
/// per-connection upstream sender (a request arriving right after the previous response completed).
pub fn storm_strategy() -> impl Strategy<Value = Case> {
    let small_exch = exch().prop_map(|mut e| {
        e.req.body.truncate(64);
        e.resp.body.truncate(3000);
        if e.resp.framing == 2 {
            e.resp.framing = 1;
        }
        e.resp.pause_us = e.resp.pause_us.min(60);
        e.resp.delay_ms = 0;
        e
    });
    (
        prop::collection::vec((authorised_rec(), prop::collection::vec(small_exch, 1..4), 20u8..40), 4..7),
        prop::option::weighted(0.5, (crate::props::c04::guid(), crate::props::c04::key_hex())),
    )
        .prop_map(|(conns, key)| Case { conns: conns.into_iter().map(|(rec, exchanges, rounds)| ConnPlan { rec, exchanges, burst: false, rounds }).collect(), key })
}

pub const RULE: &str = "generator: 1-3 client connections run concurrently, each attributed to an authorised caller/destination and carrying 1-4 requests on one keep-alive connection (sequentially, or all written before any response is read, or - with small bodies - the list repeated 8-39 times back to back: a keep-alive storm): method in {GET,POST,PUT,DELETE,PATCH,HEAD,OPTIONS}, target (one in eight written in absolute form, http://<recorded destination><path and query>; 12% of the requests are the two signature-exempt uploads PUT /vmAgentLog and POST /machine/?comp=telemetrydata in any letter case), header multiset (a third of the requests repeat a header name two or three times), body 0 bytes .. exactly the 100 KiB limit (up to 300 KiB on the exempt uploads) as Content-Length or chunked with generated chunk sizes and write boundaries; host responses: status from 200..599 (no 1xx), header multiset incl. repeated Set-Cookie and a host-side x-ms-azure-host-claims (a few percent of the responses: 20-60 more fields of about 1 KB each), body 0..400 KB binary as Content-Length / chunked with generated chunk sizes / close-delimited, written in generated pieces with optional pauses, 0.3% of the responses only after 1.5 / 5.5 / 7 s, 12% of the fully framed responses on sequential connections carry 'Connection: close' and the host closes (the client, told so, continues on a new connection), the last bytes (e.g. the chunked terminator) optionally in a separate late write. Every request and response carries a unique tag. oracle: host side - method, target, de-framed body byte-equal, client header lines other than the three proxy-owned names equal as a multiset with order kept among equal names; client side - status, header lines plus exactly one x-ms-azure-host-authorization marker, body byte-equal, response tag = request tag; framing headers, Connection and Date exempt on both legs. non-trivial: an exchange with non-empty bodies in both directions and a multi-frame response, or >= 3 requests on one connection with >= 2 connections active; distinct by hash of the case.";

const EXEMPT: &[&str] = &["content-length", "transfer-encoding", "connection", "keep-alive", "date", "te", "trailer", "upgrade"];
const PROXY_OWNED: &[&str] = &["x-ms-azure-host-claims", "x-ms-azure-host-date", "x-ms-azure-host-authorization"];

fn norm(headers: &[(String, Vec<u8>)], drop: &[&[&str]]) -> Vec<(String, Vec<u8>)> {
    let mut v: Vec<(String, Vec<u8>)> = headers
        .iter()
        .map(|(n, v)| (n.to_ascii_lowercase(), crate::rawhttp::trim_ows(v).to_vec()))
        .filter(|(n, _)| !drop.iter().any(|set| set.contains(&n.as_str())))
        .collect();
    v.sort_by(|a, b| a.0.cmp(&b.0)); // stable: order among equal names is kept
    v
}

fn show(h: &[(String, Vec<u8>)]) -> Vec<String> {
    h.iter().map(|(n, v)| format!("{}: {}", n, String::from_utf8_lossy(v))).collect()
}

struct ConnResult {
    responses: Vec<Result<crate::rawhttp::RawResponse, String>>,
}

pub fn eval(rig: &Rig, case: &Case, stats: &mut Stats) -> Outcome {
    rig.set_rules(None, None, None);
    rig.set_key(case.key.as_ref().map(|(g, k)| (g.as_str(), k.as_str())));
    let _ = rig.mock.take_requests();
    // responder: tag -> spec
    let specs: Arc<Mutex<BTreeMap<String, ResponseSpec>>> = Arc::new(Mutex::new(BTreeMap::new()));
    let mut sent: BTreeMap<String, (usize, usize)> = BTreeMap::new();
    for (ci, c) in case.conns.iter().enumerate() {
        for (ei, e) in c.exchanges.iter().enumerate() {
          for round in 0..c.rounds.max(1) {
            let tag = format!("c{}e{}r{}", ci, ei, round);
            let mut headers: Vec<(String, Vec<u8>)> = e.resp.headers.iter().map(|(n, v)| (n.clone(), v.as_bytes().to_vec())).collect();
            headers.push(("x-resp-tag".into(), tag.as_bytes().to_vec()));
            let host_closes = e.resp.host_closes && !c.burst && c.rounds.max(1) == 1 && e.resp.framing != 2 && !(100..200).contains(&e.resp.status);
            if host_closes {
                headers.push(("Connection".into(), b"close".to_vec()));
            }
            let spec = ResponseSpec {
                close_after: host_closes,
                status: e.resp.status,
                reason: "Generated".into(),
                headers,
                body: e.resp.body.clone(),
                framing: match e.resp.framing {
                    0 => RespFraming::Length,
                    1 => RespFraming::Chunked(e.resp.chunk_sizes.clone()),
                    _ => RespFraming::Close,
                },
                pieces: e.resp.pieces.clone(),
                pause_us: e.resp.pause_us,
                reset: false,
                delay_ms: e.resp.delay_ms as u64,
                tail_split: e.resp.tail_split as usize,
            };
            specs.lock().unwrap().insert(tag.clone(), spec);
            sent.insert(tag, (ci, ei));
          }
        }
    }
    {
        let specs = specs.clone();
        rig.mock.set_responder(Box::new(move |r: &Recorded| {
            let tag = r.head.get("x-tag").map(|v| String::from_utf8_lossy(v).to_string()).unwrap_or_default();
            specs.lock().unwrap().get(&tag).cloned().unwrap_or_else(|| ResponseSpec::status(418, b"untagged"))
        }));
    }
    let t_case = std::time::Instant::now();
    // run the connections concurrently
    let results: Vec<Result<ConnResult, String>> = std::thread::scope(|sc| {
        let handles: Vec<_> = case
            .conns
            .iter()
            .enumerate()
            .map(|(ci, c)| {
                sc.spawn(move || -> Result<ConnResult, String> {
                    let mut conn = rig.open(Some(rig.entry_of(&c.rec)), 0)?;
                    let mut responses = Vec::new();
                    let rounds = c.rounds.max(1);
                    let wire_of = |ei: usize, round: u8| -> Vec<u8> {
                        let e = &c.exchanges[ei];
                        let target = if e.abs_form {
                            let (ip, port) = c.rec.dest.addr();
                            format!("http://{}.{}.{}.{}:{}{}", ip[0], ip[1], ip[2], ip[3], port, e.req.url.text())
                        } else {
                            e.req.url.text()
                        };
                        e.req.wire(&target, &[("x-tag".to_string(), format!("c{}e{}r{}", ci, ei, round).into_bytes())])
                    };
                    if c.burst {
                        // writer thread: a client that pipelines must keep reading while it writes
                        let mut w = conn.stream.try_clone().map_err(|e| e.to_string())?;
                        let _ = w.set_write_timeout(Some(Duration::from_secs(30)));
                        let wires: Vec<(Vec<u8>, Vec<usize>)> = (0..c.exchanges.len()).map(|ei| (wire_of(ei, 0), c.exchanges[ei].req_pieces.clone())).collect();
                        std::thread::scope(|s2| {
                            s2.spawn(move || {
                                for (wb, pieces) in &wires {
                                    if crate::rawhttp::write_pieces(&mut w, wb, pieces, Duration::ZERO).is_err() {
                                        break;
                                    }
                                }
                            });
                            for e in &c.exchanges {
                                responses.push(conn.read(&e.req.method, Duration::from_secs(30)).map_err(|e| format!("{:?}", e)));
                            }
                        });
                    } else {
                        let _ = conn.stream.set_write_timeout(Some(Duration::from_secs(30)));
                        for round in 0..rounds {
                            for (ei, e) in c.exchanges.iter().enumerate() {
                                conn.send_pieces(&wire_of(ei, round), &e.req_pieces).map_err(|e| format!("send: {}", e))?;
                                let r = conn.read(&e.req.method, Duration::from_secs(30)).map_err(|e| format!("{:?}", e));
                                // a well-behaved client: told that the connection ends here, it goes on with a new one
                                let told_to_close = r.as_ref().map(|r| r.head.get("connection").map(|v| v.eq_ignore_ascii_case(b"close")).unwrap_or(false)).unwrap_or(false);
                                responses.push(r);
                                if told_to_close && (ei + 1 < c.exchanges.len() || round + 1 < rounds) {
                                    let old = std::mem::replace(&mut conn, rig.open(Some(rig.entry_of(&c.rec)), 0)?);
                                    crate::rawhttp::close_abortive(old.stream);
                                    let _ = conn.stream.set_write_timeout(Some(Duration::from_secs(30)));
                                }
                            }
                        }
                    }
                    crate::rawhttp::close_abortive(conn.stream);
                    Ok(ConnResult { responses })
                })
            })
            .collect();
        handles.into_iter().map(|h| h.join().unwrap_or_else(|_| Err("client thread panicked".into()))).collect()
    });
    rig.mock.set_responder(Box::new(|_r| ResponseSpec::ok(b"mock")));
    let recorded = rig.mock.take_requests();
    if t_case.elapsed() > Duration::from_millis(700) && std::env::var("VERIF_DEBUG_SLOW").is_ok() {
        eprintln!("[slow-case] {:?} conns: {:?}", t_case.elapsed(), case.conns.iter().map(|c| (c.burst, c.rounds, c.exchanges.iter().map(|e| (e.req.method.clone(), e.req.body.len(), e.req.chunked.is_some(), e.resp.status, e.resp.framing, e.resp.body.len(), e.resp.pieces.len(), e.resp.pause_us, e.resp.tail_split)).collect::<Vec<_>>())).collect::<Vec<_>>());
    }

    // classification / non-triviality
    let mut nontrivial = false;
    let active = case.conns.len();
    for c in &case.conns {
        if c.rounds > 1 {
            stats.class("conn:keep-alive-storm(>=8 rounds)");
        }
        if c.exchanges.len() * c.rounds.max(1) as usize >= 3 && active >= 2 {
            nontrivial = true;
        }
        for e in &c.exchanges {
            let multi_frame = e.resp.pieces.len() >= 2 || (e.resp.framing == 1 && e.resp.body.len() > e.resp.chunk_sizes.first().copied().unwrap_or(usize::MAX));
            if !e.req.body.is_empty() && !e.resp.body.is_empty() && multi_frame {
                nontrivial = true;
            }
            stats.class(&format!("resp-framing:{}", ["content-length", "chunked", "close-delimited"][e.resp.framing as usize % 3]));
            stats.class(if e.req.chunked.is_some() && !e.req.body.is_empty() { "req-framing:chunked" } else { "req-framing:content-length" });
            if e.abs_form {
                stats.class("request:absolute-form-target");
            }
            if e.resp.delay_ms >= 5000 && c.rounds <= 1 {
                stats.class("response:host-answers-after->=5s");
            }
            if e.req.body.len() == 102_400 {
                stats.class("req-body:exactly-the-limit");
            }
            if e.resp.body.len() > 60_000 {
                stats.class("resp-body:>60KB");
            }
        }
        if c.burst && c.exchanges.len() > 1 {
            stats.class("conn:pipelined-burst");
        }
    }
    stats.class(&format!("connections:{}", active));
    if nontrivial {
        stats.nontrivial_hash(h64(case));
    }
    stats.sample(|| {
        serde_json::json!({"connections": case.conns.iter().map(|c| serde_json::json!({"dest": c.rec.dest, "burst": c.burst, "exchanges": c.exchanges.iter().map(|e| serde_json::json!({
            "request": format!("{} {}", e.req.method, e.req.url.text()), "req_headers": e.req.headers, "req_body_len": e.req.body.len(), "req_chunked": e.req.chunked,
            "resp_status": e.resp.status, "resp_headers": e.resp.headers, "resp_body_len": e.resp.body.len(), "resp_framing": e.resp.framing, "resp_pieces": e.resp.pieces})).collect::<Vec<_>>()})).collect::<Vec<_>>()})
    });

    // ---- host side ----
    let mut seen_tags: BTreeMap<String, usize> = BTreeMap::new();
    for r in &recorded {
        let tag = r.head.get("x-tag").map(|v| String::from_utf8_lossy(v).to_string()).unwrap_or_default();
        *seen_tags.entry(tag.clone()).or_insert(0) += 1;
        let (ci, ei) = match sent.get(&tag) {
            Some(x) => *x,
            None => return Outcome::fail("transparency:host-received-unknown-request", format!("{} {}", r.method, r.target)),
        };
        let e = &case.conns[ci].exchanges[ei];
        let want_listener = case.conns[ci].rec.dest.listener().unwrap_or("");
        if r.listener != want_listener {
            return Outcome::fail("transparency:request-at-wrong-host", format!("{} at {} expected {}", tag, r.listener, want_listener));
        }
        let abs_text = {
            let (ip, port) = case.conns[ci].rec.dest.addr();
            format!("http://{}.{}.{}.{}:{}{}", ip[0], ip[1], ip[2], ip[3], port, e.req.url.text())
        };
        if r.method != e.req.method || (r.target != e.req.url.text() && !(e.abs_form && r.target == abs_text)) {
            return Outcome::fail("transparency:request-line-changed", format!("sent {} {} host saw {} {}", e.req.method, e.req.url.text(), r.method, r.target));
        }
        if r.body != e.req.body {
            let at = r.body.iter().zip(&e.req.body).position(|(a, b)| a != b).unwrap_or(r.body.len().min(e.req.body.len()));
            return Outcome::fail("transparency:request-body-changed", format!("{}: sent {} bytes, host saw {} bytes, first difference at {}", tag, e.req.body.len(), r.body.len(), at));
        }
        let mut client_h: Vec<(String, Vec<u8>)> = vec![("host".into(), b"168.63.129.16".to_vec()), ("x-tag".into(), tag.as_bytes().to_vec())];
        client_h.extend(e.req.headers.iter().map(|(n, v)| (n.clone(), v.as_bytes().to_vec())));
        let a = norm(&client_h, &[EXEMPT, PROXY_OWNED]);
        let b = norm(&r.head.headers, &[EXEMPT, PROXY_OWNED]);
        if a != b {
            return Outcome::fail("transparency:request-headers-changed", format!("{}: client sent {:?}, host saw {:?}", tag, show(&a), show(&b)));
        }
    }
    // ---- client side ----
    for (ci, res) in results.iter().enumerate() {
        let res = match res {
            Ok(r) => r,
            Err(e) => return Outcome::fail("transparency:client-connection-failed", format!("connection {}: {}", ci, e)),
        };
        let n_ex = case.conns[ci].exchanges.len();
        for (ri, resp) in res.responses.iter().enumerate() {
            let (ei, round) = (ri % n_ex, ri / n_ex);
            let e = &case.conns[ci].exchanges[ei];
            let tag = format!("c{}e{}r{}", ci, ei, round);
            let resp = match resp {
                Ok(r) => r,
                Err(err) => return Outcome::fail("transparency:no-response-for-relayed-request", format!("{} ({} {} -> host status {}, framing {}): {}", tag, e.req.method, e.req.url.text(), e.resp.status, e.resp.framing, err)),
            };
            if seen_tags.get(&tag).copied().unwrap_or(0) != 1 {
                return Outcome::fail("transparency:request-not-relayed-exactly-once", format!("{} relayed {} times; client got status {}", tag, seen_tags.get(&tag).copied().unwrap_or(0), resp.status));
            }
            let got_tag = resp.head.get("x-resp-tag").map(|v| String::from_utf8_lossy(v).to_string());
            if got_tag.as_deref() != Some(tag.as_str()) {
                return Outcome::fail("transparency:response-delivered-to-wrong-request", format!("request {} received the response tagged {:?} (status {})", tag, got_tag, resp.status));
            }
            if resp.status != e.resp.status {
                return Outcome::fail("transparency:status-changed", format!("{}: host sent {}, client saw {}", tag, e.resp.status, resp.status));
            }
            let bodyless = e.req.method == "HEAD" || e.resp.status == 204 || e.resp.status == 304;
            let want_body: &[u8] = if bodyless { &[] } else { &e.resp.body };
            if resp.body != want_body {
                let at = resp.body.iter().zip(want_body).position(|(a, b)| a != b).unwrap_or(resp.body.len().min(want_body.len()));
                return Outcome::fail("transparency:response-body-changed", format!("{}: host sent {} bytes, client saw {} bytes, first difference at {} (framing {})", tag, want_body.len(), resp.body.len(), at, e.resp.framing));
            }
            let mut host_h: Vec<(String, Vec<u8>)> = e.resp.headers.iter().map(|(n, v)| (n.clone(), v.as_bytes().to_vec())).collect();
            host_h.push(("x-resp-tag".into(), tag.as_bytes().to_vec()));
            host_h.push(("x-ms-azure-host-authorization".into(), b"value".to_vec()));
            let a = norm(&host_h, &[EXEMPT]);
            let b = norm(&resp.head.headers, &[EXEMPT]);
            if a != b {
                return Outcome::fail("transparency:response-headers-changed", format!("{}: host sent {:?} (+marker), client saw {:?}", tag, show(&a), show(&b)));
            }
        }
    }
    Outcome::Pass
}
