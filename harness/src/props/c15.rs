//! C15 — request bodies above the size limit are refused and never relayed; at or below it they
//! are relayed intact.

use crate::gen::{self, flip_case};
use crate::report::{h64, Stats};
use crate::rig::{DestSel, Rec, Rig};
use crate::runner::Outcome;
use proptest::prelude::*;
use serde::{Deserialize, Serialize};
use std::io::Write;
use std::time::Duration;

pub const LOW: usize = 100 * 1024;
pub const HIGH: usize = 100 * 1024 * 1024;

#[derive(Clone, Debug, Serialize, Deserialize, Hash)]
pub struct Case {
    pub rec: Rec,
    pub method: String,
    pub target: String,
    pub len: usize,
    pub pattern: u8,
    /// None: Content-Length; Some(sizes): chunked with these chunk sizes (cycled); Some([]) = one single chunk
    pub chunked: Option<Vec<usize>>,
    pub key: bool,
    /// a small request of the OTHER or the same limit class sent first on the same keep-alive connection
    /// (0 = PUT /vmAgentLog, 1 = POST /machine/?comp=telemetrydata, 2 = GET, 3 = ordinary POST; 20 bytes of body where there is one)
    #[serde(default)]
    pub prelude: Option<u8>,
    /// chunked requests only: the head ALSO declares a Content-Length (value, written before the Transfer-Encoding line?) -
    /// hyper reads such a body as chunked; whatever the declared number says, a body above the limit is refused and not relayed
    #[serde(default)]
    pub also_declared: Option<(u32, bool)>,
    /// chunked bodies above the limit only: the sender does not end the body - after limit + 1 .. bytes it keeps the body open
    /// and trickles small chunks until it has been answered (a streaming uploader): the refusal must not wait for the end
    #[serde(default)]
    pub open_ended: bool,
}

fn target_class() -> impl Strategy<Value = (String, String)> {
    prop_oneof![
        // non-exempt
        6 => (prop::sample::select(vec!["POST", "PUT", "PATCH"]), prop::sample::select(vec!["/metadata/instance", "/machine?comp=goalstate", "/upload", "/"])).prop_map(|(m, t)| (m.to_string(), t.to_string())),
        // exempt, any letter case
        3 => gen::case_mask().prop_map(|m| ("PUT".to_string(), flip_case("/vmAgentLog", m))),
        3 => gen::case_mask().prop_map(|m| ("POST".to_string(), flip_case("/machine/?comp=telemetrydata", m))),
        // near misses of the exemption: wrong method, extra query, extra path
        1 => Just(("POST".to_string(), "/vmAgentLog".to_string())),
        1 => Just(("PUT".to_string(), "/machine/?comp=telemetrydata".to_string())),
        1 => Just(("PUT".to_string(), "/vmAgentLog?x=1".to_string())),
        1 => Just(("POST".to_string(), "/machine/?comp=telemetrydata&x=1".to_string())),
        1 => Just(("PUT".to_string(), "/vmAgentLog/".to_string())),
        1 => Just(("POST".to_string(), "/machine?comp=telemetrydata".to_string())),
    ]
}

pub fn limit_ref(method: &str, target: &str) -> usize {
    let t = target.to_lowercase();
    if (method == "PUT" && t == "/vmagentlog") || (method == "POST" && t == "/machine/?comp=telemetrydata") {
        HIGH
    } else {
        LOW
    }
}

pub fn strategy(big_weight: u32) -> impl Strategy<Value = Case> {
    let small_lens = prop_oneof![
        1 => Just(0usize), 1 => Just(1usize), 3 => Just(LOW - 1), 4 => Just(LOW), 4 => Just(LOW + 1), 2 => Just(LOW + 4096), 2 => Just(2 * LOW),
        2 => (LOW - 64)..(LOW + 64), 1 => 1usize..(3 * LOW),
    ];
    let big_lens = prop_oneof![1 => Just(HIGH - 1), 1 => Just(HIGH), 2 => Just(HIGH + 1)];
    (
        target_class(),
        prop_oneof![(1000 - big_weight) => small_lens.prop_map(|l| (l, false)), big_weight => big_lens.prop_map(|l| (l, true))],
        any::<u8>(),
        prop::option::weighted(0.45, prop_oneof![2 => Just(vec![]), 3 => prop::collection::vec(1usize..70_000, 1..4), 1 => Just(vec![LOW + 1]), 1 => Just(vec![LOW])]),
        0u8..5,
        0u8..5,
        any::<bool>(),
        any::<bool>(),
        prop::option::weighted(0.35, 0u8..4),
        prop::option::weighted(0.2, (prop_oneof![Just(0u32), Just(5u32), Just(LOW as u32), Just(LOW as u32 - 1), 1u32..200_000], prop::bool::weighted(0.7))),
        prop::bool::weighted(0.3),
    )
        .prop_map(|((method, target), (len, big), pattern, chunked, uid_sel, helper_sel, key, telemetry, prelude, also_declared, open_ended)| {
            // the 100 MiB class only makes sense on the exempt pairs
            let (method, target) = if big {
                if telemetry { ("POST".to_string(), "/machine/?comp=telemetrydata".to_string()) } else { ("PUT".to_string(), "/vmAgentLog".to_string()) }
            } else {
                (method, target)
            };
            // the 100 MiB class: two thirds undeclared (chunked), where the limit is only found while the body arrives
            let chunked = if big { if pattern % 3 != 0 { Some(vec![1 << 20]) } else { None } } else { chunked };
            Case { rec: Rec { uid_sel, helper_sel, is_root: uid_sel == 0, dest: DestSel::Imds }, method, target, len, pattern, chunked, key, prelude: if big { None } else { prelude }, also_declared: if big { None } else { also_declared }, open_ended: open_ended && !big }
        })
}

pub const RULE: &str = "generator: authorised attributed requests to IMDS; method/URL class in {non-exempt, PUT /vmAgentLog and POST /machine/?comp=telemetrydata in random letter case, near misses of the exemption (wrong method, extra query, trailing slash)}; body length in {0, 1, L-1, L, L+1, L+4096, 2L, L +/- 64, random} for L = 100 KiB and, on the exempt pairs, {L'-1, L', L'+1} for L' = 100 MiB (about 1% of the cases in the quick tier); declared by Content-Length or undeclared (chunked: one single chunk, generated chunk sizes, one chunk of L or L+1; a fifth of the chunked requests ALSO carry a Content-Length line - 0, 5, L-1, L or random - before or after the Transfer-Encoding line: within the limit they may be relayed intact or refused, above it they are refused and never relayed). In 35% of the cases a small request (exempt upload, GET or ordinary POST) is sent and answered first on the same keep-alive connection, so that the limit class of the connection's first request differs from that of the request under test. The client writes the body from a second thread while the first waits for the response, so an early refusal is seen; 30% of the over-limit chunked senders never end the body but keep trickling one-byte chunks until they have been answered (within 15 s). oracle: limit_ref(method, target) from the statement; length > limit => status 4xx and zero body bytes relayed (no request recorded at the mock); length <= limit => exactly one request at the mock whose de-framed body has the same length and content, status 200. non-trivial: length within +/- 1 of a limit, or chunked above the limit; distinct by hash of the case.";

pub fn body_bytes(len: usize, pattern: u8) -> Vec<u8> {
    let mut v = vec![0u8; len];
    let mut x = pattern as u32 | 0x100;
    for (i, b) in v.iter_mut().enumerate() {
        if i % 4096 == 0 {
            x = x.wrapping_mul(1664525).wrapping_add(1013904223);
        }
        *b = (x >> 16) as u8 ^ (i as u8);
    }
    v
}

pub fn eval(rig: &Rig, case: &Case, stats: &mut Stats) -> Outcome {
    rig.set_rules(None, None, None);
    if case.key {
        rig.set_key(Some(("11111111-2222-3333-4444-555555555555", "4a404e635266556a586e3272357538782f413f4428472b4b6250645367566b59")));
    } else {
        rig.set_key(None);
    }
    let limit = limit_ref(&case.method, &case.target);
    let over = case.len > limit;
    let body = body_bytes(case.len, case.pattern);
    let mut head_h: Vec<(String, Vec<u8>)> = vec![("Host".into(), b"169.254.169.254".to_vec()), ("Metadata".into(), b"true".to_vec())];
    let framed: Vec<u8> = match &case.chunked {
        Some(sizes) => {
            if let Some((n, true)) = case.also_declared {
                head_h.push(("Content-Length".into(), n.to_string().into_bytes()));
            }
            head_h.push(("Transfer-Encoding".into(), b"chunked".to_vec()));
            if let Some((n, false)) = case.also_declared {
                head_h.push(("Content-Length".into(), n.to_string().into_bytes()));
            }
            crate::rawhttp::encode_chunked(&body, sizes)
        }
        None => {
            head_h.push(("Content-Length".into(), case.len.to_string().into_bytes()));
            body.clone()
        }
    };
    let head = crate::rawhttp::request_head(&case.method, &case.target, &head_h);

    stats.class(if limit == HIGH { "class:exempt-100MiB-limit" } else { "class:100KiB-limit" });
    stats.class(if case.chunked.is_some() { "framing:chunked" } else { "framing:content-length" });
    let both_framings = case.chunked.is_some() && case.also_declared.is_some();
    if both_framings {
        stats.class(if over { "framing:chunked-plus-a-declared-length(over-limit)" } else { "framing:chunked-plus-a-declared-length(within-limit)" });
    }
    stats.class(if over { "length:over-limit" } else { "length:within-limit" });
    let near = (case.len as i64 - limit as i64).abs() <= 1;
    if near {
        stats.class("length:within-1-of-limit");
    }
    if case.len >= HIGH - 1 {
        stats.class("length:100MiB-class");
    }
    if near || (case.chunked.is_some() && over) {
        stats.nontrivial_hash(h64(case));
    }

    let _ = rig.mock.take_requests();
    let mut conn = match rig.open(Some(rig.entry_of(&case.rec)), 0) {
        Ok(c) => c,
        Err(e) => return Outcome::fail("rig:cannot-open-connection", e),
    };
    if let Some(p) = case.prelude {
        let (m, t, b): (&str, &str, &[u8]) = match p % 4 {
            0 => ("PUT", "/vmAgentLog", b"01234567890123456789"),
            1 => ("POST", "/machine/?comp=telemetrydata", b"01234567890123456789"),
            2 => ("GET", "/metadata/instance?api-version=2021-02-01", b""),
            _ => ("POST", "/upload", b"01234567890123456789"),
        };
        stats.class(if p % 4 < 2 { "prelude:exempt-upload-first-on-the-connection" } else { "prelude:ordinary-request-first-on-the-connection" });
        let mut hs: Vec<(String, Vec<u8>)> = vec![("Host".into(), b"169.254.169.254".to_vec()), ("Metadata".into(), b"true".to_vec())];
        if !b.is_empty() {
            hs.push(("Content-Length".into(), b.len().to_string().into_bytes()));
        }
        let mut wire = crate::rawhttp::request_head(m, t, &hs);
        wire.extend_from_slice(b);
        if let Err(e) = conn.send(&wire) {
            return Outcome::fail("rig:prelude-send-failed", e.to_string());
        }
        match conn.read(m, Duration::from_secs(30)) {
            Ok(r) if r.status == 200 => {}
            Ok(r) => return Outcome::fail("limit:body-within-limit-refused", format!("prelude {} {} with {} bytes: status {}", m, t, b.len(), r.status)),
            Err(e) => return Outcome::fail("limit:no-response", format!("prelude {} {}: {:?}", m, t, e)),
        }
        let _ = rig.mock.take_requests();
    }
    let open_ended = case.open_ended && over && case.chunked.is_some();
    if open_ended {
        stats.class("sender:keeps-the-over-limit-chunked-body-open-until-answered");
    }
    let answered = std::sync::Arc::new(std::sync::atomic::AtomicBool::new(false));
    let answered_w = answered.clone();
    let before = rig.mock.total_bytes();
    let mut wstream = match conn.stream.try_clone() {
        Ok(s) => s,
        Err(e) => return Outcome::fail("rig:cannot-clone-stream", e.to_string()),
    };
    let resp = std::thread::scope(|sc| {
        let w = sc.spawn(move || {
            let _ = wstream.write_all(&head);
            let _ = wstream.flush();
            // (an open-ended sender leaves out the terminating chunk "0 CRLF CRLF" and trickles until it has been answered)
            let upto = if open_ended { framed.len().saturating_sub(5) } else { framed.len() };
            for piece in framed[..upto].chunks(256 * 1024) {
                if wstream.write_all(piece).is_err() {
                    break;
                }
            }
            let _ = wstream.flush();
            if open_ended {
                let t0 = std::time::Instant::now();
                while !answered_w.load(std::sync::atomic::Ordering::Relaxed) && t0.elapsed() < Duration::from_secs(22) {
                    if wstream.write_all(b"1\r\nx\r\n").is_err() {
                        break;
                    }
                    let _ = wstream.flush();
                    std::thread::sleep(Duration::from_millis(100));
                }
            }
        });
        let r = conn.read(&case.method, Duration::from_secs(if case.len > 4 * 1024 * 1024 { 120 } else if open_ended { 15 } else { 25 }));
        answered.store(true, std::sync::atomic::Ordering::Relaxed);
        let _ = conn.stream.shutdown(std::net::Shutdown::Both);
        let _ = w.join();
        r
    });
    drop(conn);
    let recorded = rig.mock.take_requests();
    let up = rig.mock.total_bytes() - before;
    stats.sample(|| serde_json::json!({"request": format!("{} {}", case.method, case.target), "body_len": case.len, "chunked": case.chunked, "limit": limit, "status": resp.as_ref().ok().map(|r| r.status), "upstream_bytes": up}));
    let status = match &resp {
        Ok(r) => r.status,
        Err(e) => return Outcome::fail("limit:no-response", format!("{} {} len {} chunked {:?}: {:?}", case.method, case.target, case.len, case.chunked, e)),
    };
    if over {
        if !(400..500).contains(&status) {
            return Outcome::fail("limit:oversized-body-not-refused-with-4xx", format!("status {} for {} {} with {} bytes (limit {}), chunked {:?}", status, case.method, case.target, case.len, limit, case.chunked));
        }
        if up > 0 || !recorded.is_empty() {
            return Outcome::fail("limit:oversized-body-relayed", format!("{} bytes reached the host for {} {} with {} bytes (limit {})", up, case.method, case.target, case.len, limit));
        }
    } else if both_framings && (400..500).contains(&status) {
        // a request with both framing headers may be refused as malformed whatever its size (RFC 9112 6.1); then nothing of it is relayed
        stats.underspec();
        if up > 0 || !recorded.is_empty() {
            return Outcome::fail("limit:refused-request-relayed", format!("{} bytes reached the host for a refused {} {} (status {})", up, case.method, case.target, status));
        }
    } else {
        if status != 200 {
            return Outcome::fail("limit:body-within-limit-refused", format!("status {} for {} {} with {} bytes (limit {}), chunked {:?}", status, case.method, case.target, case.len, limit, case.chunked));
        }
        if recorded.len() != 1 {
            return Outcome::fail("limit:body-within-limit-not-relayed-once", format!("{} requests at the host", recorded.len()));
        }
        if recorded[0].body.len() != body.len() || recorded[0].body != body {
            return Outcome::fail("limit:relayed-body-differs", format!("sent {} bytes, host saw {} bytes", body.len(), recorded[0].body.len()));
        }
    }
    Outcome::Pass
}
