//! C16 — provisioning status is truthful under any arrival order; status.tag is only ever replaced atomically.

use crate::report::{h64, Stats};
use crate::runner::Outcome;
use crate::sched;
use azure_proxy_agent::provision;
use azure_proxy_agent::shared_state::SharedState;
use proptest::prelude::*;
use serde::{Deserialize, Serialize};
use std::collections::BTreeSet;
use std::os::unix::fs::MetadataExt;
use std::sync::atomic::{AtomicBool, Ordering};
use std::sync::Arc;
use std::time::Duration;
use tokio::io::{AsyncReadExt, AsyncWriteExt};

#[derive(Clone, Copy, Debug, Serialize, Deserialize, Hash, PartialEq, Eq, PartialOrd, Ord)]
pub enum Sub {
    Redirector,
    KeyLatch,
    Listener,
}

#[derive(Clone, Debug, Serialize, Deserialize, Hash, PartialEq, Eq)]
pub enum OpKind {
    Report(Sub),
    ResetKeyLatch,
    TimeUp,
    SetChannel(u8),
    QueryInternal,
    /// GET /provision through the real listener; tick: 0 ancient, 1 the instant the query is created, 2 far future, 3 = 2^63, 4 = i128::MAX
    QueryHttp(u8),
    /// the command line's waiting query: ProvisionQuery::get_provision_status_wait with a wait that ends a quarter of a second
    /// from now (it polls GET /provision every 100 ms until finished or timed out); sequential histories only
    QueryWait,
}

#[derive(Clone, Debug, Serialize, Deserialize, Hash)]
pub struct Case {
    pub ops: Vec<OpKind>,
    pub schedule: Vec<u8>,
    /// run the operations one after the other (exact oracle) instead of under the schedule (possibility sets)
    pub sequential: bool,
    /// status message of (redirector, key keeper, listener) before the history starts: index into STATUS_LENGTHS, odd = multi-byte
    /// text (a subsystem that is not ready is named with its status message, however long that is)
    #[serde(default)]
    pub status_sel: Vec<u8>,
}

pub const STATUS_LENGTHS: &[usize] = &[0, 40, 500, 900, 990, 1024, 1500, 4000];

pub const CHANNEL_STATES: &[&str] = &["disabled", "Unknown", "wireserver", "WireServer Enforce -  IMDS Audit - HostGA Enforce"];

pub fn strategy() -> impl Strategy<Value = Case> {
    let op = prop_oneof![
        30 => Just(OpKind::Report(Sub::Redirector)), 40 => Just(OpKind::Report(Sub::KeyLatch)), 30 => Just(OpKind::Report(Sub::Listener)),
        20 => Just(OpKind::ResetKeyLatch), 20 => Just(OpKind::TimeUp), 20 => (0u8..4).prop_map(OpKind::SetChannel),
        40 => Just(OpKind::QueryInternal), 30 => (0u8..5).prop_map(OpKind::QueryHttp), 1 => Just(OpKind::QueryWait),
    ];
    (prop::collection::vec(op, 2..9), prop::collection::vec(any::<u8>(), 0..120), prop::bool::weighted(0.35), prop_oneof![2 => Just(vec![]), 1 => prop::collection::vec(0u8..16, 3)]).prop_map(|(ops, schedule, sequential, status_sel)| {
        // (the waiting query sleeps between its polls: it is run in sequential histories only)
        let sequential = sequential || ops.contains(&OpKind::QueryWait);
        Case { ops, schedule, sequential, status_sel }
    })
}

pub const RULE: &str = "generator: in a third of the cases the three subsystems start with status messages of 0 / 40 / 500 / 900 / 990 / 1024 / 1500 / 4000 bytes (ASCII or two-byte characters); 2-8 operations on fresh shared state - readiness reports (redirector_ready, key_latched, listener_started), key_latch_ready_state_reset, provision_timeup, update_current_secure_channel_state(disabled | Unknown | a latched state), queries (get_provision_state_internal directly; in 2% of the histories the command line's waiting query, ProvisionQuery::get_provision_status_wait, which polls until finished or timed out; GET /provision through the real listener with x-ms-azure-time_tick = an ancient instant, the instant the query is created, a far-future instant, 2^63 or the largest 128-bit integer) - run either strictly one after the other (35%) or under a generated schedule of 0-119 steps by the owned-schedule executor. oracle: sequential histories - the reference flag/tick model (DESIGN.md A.4) exactly: finished, and the error text names exactly the subsystems not ready, in order, empty iff all are; scheduled histories - possibility sets from the executor's knowledge of which operations had completed before a query started (definitely) and which had started before it ended (possibly): finished only if all three reports or the deadline or a latched channel state possibly happened (far-future tick: only if latched), a subsystem is omitted from the error text only if a report of it possibly happened and named only if it was not definitely ready. A watcher thread follows the directory with inotify (the entry status.tag may only ever receive MOVED_TO events: CREATE / MODIFY / CLOSE_WRITE under the final name mean it was written in place) and re-reads status.tag continuously: the same inode never shows two different contents (replace-by-rename), every content is empty or complete CRLF-terminated lines with the three known prefixes. non-trivial: >= 2 reports overlap a query or a reset overlaps a report (scheduled), or a sequential history in which finished flips; distinct by hash of the case.";

#[derive(Clone, Debug)]
pub enum Out {
    Done,
    Internal { tick: i128, error: String, channel: String },
    Http { status: u16, finished: Option<bool>, error: String, tick_sent: i128 },
    Wait { finished: bool, error: String },
    Failed(String),
}

fn named(error: &str) -> Result<BTreeSet<Sub>, String> {
    let mut out = BTreeSet::new();
    if error.is_empty() {
        return Ok(out);
    }
    if !error.ends_with("\r\n") {
        return Err(format!("error text not CRLF-terminated: {:?}", error));
    }
    for line in error.trim_end_matches("\r\n").split("\r\n") {
        let sub = if line.starts_with("ebpfProgramStatus - ") {
            Sub::Redirector
        } else if line.starts_with("keyLatchStatus - ") {
            Sub::KeyLatch
        } else if line.starts_with("proxyListenerStatus - ") {
            Sub::Listener
        } else {
            return Err(format!("unknown line in error text: {:?}", line));
        };
        if !out.insert(sub) {
            return Err(format!("subsystem named twice: {:?}", error));
        }
    }
    Ok(out)
}

async fn http_query(kind: u8) -> Out {
    let tick: i128 = match kind % 5 {
        0 => 1,
        1 => sched::now_nanos(),
        2 => sched::now_nanos() + 3_600_000_000_000i128 * 24,
        // instants that do not fit 63 bits: still well-formed integers, still "later than anything that happened"
        3 => 1i128 << 63,
        _ => i128::MAX,
    };
    let r: Result<Out, String> = async {
        let mut s = tokio::net::TcpStream::connect("127.0.0.1:3080").await.map_err(|e| e.to_string())?;
        let req = format!("GET /provision HTTP/1.1\r\nHost: 127.0.0.1\r\nMetadata: true\r\nx-ms-azure-time_tick: {}\r\nConnection: close\r\n\r\n", tick);
        s.write_all(req.as_bytes()).await.map_err(|e| e.to_string())?;
        let mut buf = Vec::new();
        s.read_to_end(&mut buf).await.map_err(|e| e.to_string())?;
        let e = crate::rawhttp::head_end(&buf).ok_or("no head")?;
        let head = crate::rawhttp::parse_head(&buf[..e])?;
        let status: u16 = head.start.1.parse().unwrap_or(0);
        let body = match crate::rawhttp::response_framing(&head, "GET") {
            crate::rawhttp::Framing::Chunked => crate::rawhttp::decode_chunked(&buf[e..]).ok().flatten().map(|x| x.0).unwrap_or_default(),
            crate::rawhttp::Framing::Length(n) => buf[e..(e + n).min(buf.len())].to_vec(),
            _ => buf[e..].to_vec(),
        };
        let v: serde_json::Value = serde_json::from_slice(&body).map_err(|e| format!("body not json: {} {:?}", e, String::from_utf8_lossy(&body)))?;
        Ok(Out::Http { status, finished: v["finished"].as_bool(), error: v["errorMessage"].as_str().unwrap_or("").to_string(), tick_sent: tick })
    }
    .await;
    r.unwrap_or_else(Out::Failed)
}

struct Watch {
    stop: Arc<AtomicBool>,
    handle: Option<std::thread::JoinHandle<Vec<String>>>,
}

fn start_watcher(path: std::path::PathBuf) -> Watch {
    let stop = Arc::new(AtomicBool::new(false));
    let st = stop.clone();
    let handle = std::thread::spawn(move || {
        let mut problems = Vec::new();
        let mut seen: std::collections::BTreeMap<u64, Vec<u8>> = Default::default();
        // every change of the directory entry `status.tag`, as the kernel reports it: a replacement by rename is one
        // MOVED_TO event; CREATE / MODIFY / CLOSE_WRITE under the final name mean the file was written in place
        let ifd = unsafe { libc::inotify_init1(libc::IN_NONBLOCK | libc::IN_CLOEXEC) };
        if ifd >= 0 {
            if let (Some(dir), Ok(())) = (path.parent(), Ok::<(), ()>(())) {
                if let Ok(c) = std::ffi::CString::new(dir.as_os_str().as_encoded_bytes()) {
                    unsafe { libc::inotify_add_watch(ifd, c.as_ptr(), libc::IN_CREATE | libc::IN_MODIFY | libc::IN_CLOSE_WRITE | libc::IN_MOVED_TO) };
                }
            }
        }
        let drain_events = |problems: &mut Vec<String>| {
            if ifd < 0 {
                return;
            }
            let mut buf = [0u8; 8192];
            loop {
                let n = unsafe { libc::read(ifd, buf.as_mut_ptr() as *mut libc::c_void, buf.len()) };
                if n <= 0 {
                    break;
                }
                let mut off = 0usize;
                while off + 16 <= n as usize {
                    let mask = u32::from_ne_bytes([buf[off + 4], buf[off + 5], buf[off + 6], buf[off + 7]]);
                    let len = u32::from_ne_bytes([buf[off + 12], buf[off + 13], buf[off + 14], buf[off + 15]]) as usize;
                    let name: Vec<u8> = buf[off + 16..(off + 16 + len).min(n as usize)].iter().cloned().take_while(|b| *b != 0).collect();
                    if name == b"status.tag" && mask & (libc::IN_CREATE | libc::IN_MODIFY | libc::IN_CLOSE_WRITE) != 0 {
                        let what = [(libc::IN_CREATE, "CREATE"), (libc::IN_MODIFY, "MODIFY"), (libc::IN_CLOSE_WRITE, "CLOSE_WRITE")].iter().filter(|(m, _)| mask & m != 0).map(|(_, n)| *n).collect::<Vec<_>>().join("|");
                        if problems.len() < 5 {
                            problems.push(format!("status.tag received the file-system event {} under its final name: written in place, not replaced by rename", what));
                        }
                    }
                    off += 16 + len;
                }
            }
        };
        while !st.load(Ordering::Relaxed) {
            drain_events(&mut problems);
            if let Ok(f) = std::fs::File::open(&path) {
                use std::io::Read;
                let mut f = f;
                let ino = f.metadata().map(|m| m.ino()).unwrap_or(0);
                let mut content = Vec::new();
                if f.read_to_end(&mut content).is_ok() {
                    match seen.get(&ino) {
                        Some(prev) if *prev != content => {
                            problems.push(format!("status.tag inode {} showed {:?} and then {:?}: rewritten in place", ino, String::from_utf8_lossy(prev), String::from_utf8_lossy(&content)));
                            seen.insert(ino, content.clone());
                        }
                        None => {
                            seen.insert(ino, content.clone());
                        }
                        _ => {}
                    }
                    let text = String::from_utf8_lossy(&content).to_string();
                    if !text.is_empty() {
                        // the file holds the xml-escaped error text
                        if !text.ends_with("\r\n") || text.trim_end_matches("\r\n").split("\r\n").any(|l| !(l.starts_with("ebpfProgramStatus - ") || l.starts_with("keyLatchStatus - ") || l.starts_with("proxyListenerStatus - "))) {
                            problems.push(format!("status.tag content is not a complete message: {:?}", text));
                        }
                    }
                }
            }
            std::thread::yield_now();
        }
        drain_events(&mut problems);
        if ifd >= 0 {
            unsafe { libc::close(ifd) };
        }
        problems
    });
    Watch { stop, handle: Some(handle) }
}

pub fn eval(case: &Case, stats: &mut Stats) -> Outcome {
    let keys_dir = azure_proxy_agent::common::config::get_keys_dir();
    let _ = std::fs::create_dir_all(&keys_dir);
    for f in ["status.tag", "status.tag.tmp", "provisioned.tag"] {
        let _ = std::fs::remove_file(keys_dir.join(f));
    }
    let watcher = start_watcher(keys_dir.join("status.tag"));
    let rt = tokio::runtime::Builder::new_current_thread().enable_all().build().unwrap();
    let needs_proxy = case.ops.iter().any(|o| matches!(o, OpKind::QueryHttp(_) | OpKind::QueryWait));
    let info = rt.block_on(async {
        let shared = SharedState::start_all();
        if needs_proxy {
            // the listener's own start-up reports LISTENER_READY; it is part of the history as a hidden first report
            let proxy = azure_proxy_agent::proxy::proxy_server::ProxyServer::new(3080, &shared);
            tokio::spawn(async move { proxy.start().await });
            for _ in 0..200 {
                tokio::task::yield_now().await;
                if let Ok(f) = shared.get_provision_shared_state().get_state().await {
                    if f.contains(provision::ProvisionFlags::LISTENER_READY) {
                        break;
                    }
                }
                tokio::time::sleep(Duration::from_millis(1)).await;
            }
        }
        if case.status_sel.len() == 3 {
            use azure_proxy_agent::shared_state::agent_status_wrapper::AgentStatusModule;
            let ast = shared.get_agent_status_shared_state();
            for (sel, module) in case.status_sel.iter().zip([AgentStatusModule::Redirector, AgentStatusModule::KeyKeeper, AgentStatusModule::ProxyServer]) {
                let n = STATUS_LENGTHS[(*sel as usize / 2) % STATUS_LENGTHS.len()];
                let text = if sel % 2 == 1 { "\u{e9}".repeat(n / 2) } else { "x".repeat(n) };
                let _ = ast.set_module_status_message(text, module).await;
            }
        }
        let mut ops: Vec<sched::Op<Out>> = Vec::new();
        for o in &case.ops {
            let (ct, ks, ts, ps, ast) = (shared.get_cancellation_token(), shared.get_key_keeper_shared_state(), shared.get_telemetry_shared_state(), shared.get_provision_shared_state(), shared.get_agent_status_shared_state());
            let fut: sched::Op<Out> = match o {
                OpKind::Report(Sub::Redirector) => Box::pin(async move { provision::redirector_ready(ct, ks, ts, ps, ast).await; Out::Done }),
                OpKind::Report(Sub::KeyLatch) => Box::pin(async move { provision::key_latched(ct, ks, ts, ps, ast).await; Out::Done }),
                OpKind::Report(Sub::Listener) => Box::pin(async move { provision::listener_started(ct, ks, ts, ps, ast).await; Out::Done }),
                OpKind::ResetKeyLatch => Box::pin(async move { provision::key_latch_ready_state_reset(ps).await; Out::Done }),
                OpKind::TimeUp => Box::pin(async move { provision::provision_timeup(None, ps, ast).await; Out::Done }),
                OpKind::SetChannel(i) => {
                    let s = CHANNEL_STATES[*i as usize % CHANNEL_STATES.len()].to_string();
                    Box::pin(async move { let _ = ks.update_current_secure_channel_state(s).await; Out::Done })
                }
                OpKind::QueryInternal => Box::pin(async move {
                    let st = provision::get_provision_state_internal(ps, ast, ks).await;
                    Out::Internal { tick: st.finished_time_tick, error: st.error_message, channel: st.key_keeper_secure_channel_state }
                }),
                OpKind::QueryHttp(k) => {
                    let k = *k;
                    Box::pin(async move { http_query(k).await })
                }
                OpKind::QueryWait => Box::pin(async move {
                    // the wait is measured from the start of the process
                    let d = Duration::from_millis(azure_proxy_agent::common::helpers::get_elapsed_time_in_millisec() as u64 + 250);
                    let st = provision::provision_query::ProvisionQuery::new(3080, Some(d)).get_provision_status_wait().await;
                    Out::Wait { finished: st.finished, error: st.errorMessage }
                }),
            };
            ops.push(fut);
        }
        let schedule: &[u8] = if case.sequential { &[] } else { &case.schedule };
        let slots = sched::run(ops, schedule, Duration::from_secs(10)).await;
        let info: Vec<(usize, usize, i128, i128, Option<Out>)> = slots.into_iter().map(|s| (s.started_at.unwrap_or(usize::MAX), s.finished_at.unwrap_or(usize::MAX), s.started_wall, s.finished_wall, s.out)).collect();
        shared.cancel_cancellation_token();
        for _ in 0..20 {
            tokio::task::yield_now().await;
        }
        info
    });
    drop(rt);
    watcher.stop.store(true, Ordering::Relaxed);
    let problems = watcher.handle.and_then(|h| h.join().ok()).unwrap_or_default();

    let listener_hidden = needs_proxy; // LISTENER_READY was reported before the history started
    let latched = |s: &str| s != "disabled" && s != "Unknown";
    let mut nontrivial = false;
    stats.class(if case.sequential { "history:sequential" } else { "history:scheduled" });
    if case.status_sel.iter().any(|s| STATUS_LENGTHS[(*s as usize / 2) % STATUS_LENGTHS.len()] >= 900) {
        stats.class("status-message:>=900-bytes");
    }

    // ---------------- sequential: exact reference model ----------------
    if case.sequential {
        let mut ready: BTreeSet<Sub> = BTreeSet::new();
        if listener_hidden {
            ready.insert(Sub::Listener);
        }
        let mut fin: Option<(i128, i128)> = None; // wall-clock window of the op that set the finished tick
        let mut channel = "Unknown".to_string();
        let mut last_finished: Option<bool> = None;
        for (i, o) in case.ops.iter().enumerate() {
            let (_, _, ws, wf, out) = &info[i];
            match o {
                OpKind::Report(x) => {
                    ready.insert(*x);
                    if ready.len() == 3 {
                        fin = Some((*ws, *wf));
                    }
                }
                OpKind::ResetKeyLatch => {
                    ready.remove(&Sub::KeyLatch);
                    fin = None;
                }
                OpKind::TimeUp => {
                    if ready.len() != 3 {
                        fin = Some((*ws, *wf));
                    }
                }
                OpKind::SetChannel(k) => channel = CHANNEL_STATES[*k as usize % CHANNEL_STATES.len()].to_string(),
                OpKind::QueryWait => {
                    stats.class("query:waiting-query-of-the-command-line(polls-until-finished-or-timed-out)");
                    let missing: BTreeSet<Sub> = [Sub::Redirector, Sub::KeyLatch, Sub::Listener].into_iter().filter(|x| !ready.contains(x)).collect();
                    match out {
                        Some(Out::Wait { finished, error }) => {
                            // its tick is the instant it was created: everything earlier finished before it, so only a latched channel
                            // makes it "finished"; otherwise it times out with (false, "")
                            let want = latched(&channel);
                            if *finished != want {
                                return Outcome::fail(if *finished { "provision:finished-reported-prematurely" } else { "provision:finished-not-reported" }, format!("op {} of {:?}: the waiting query says finished={} but the model says {} (ready {:?}, channel {:?}); error text {:?}", i, case.ops, finished, want, ready, channel, error));
                            }
                            if *finished {
                                match named(error) {
                                    Err(e) => return Outcome::fail("provision:error-text-malformed", e),
                                    Ok(n) if n != missing => return Outcome::fail("provision:error-text-does-not-name-exactly-the-missing-subsystems", format!("op {} of {:?} (waiting query): names {:?}, not ready {:?}", i, case.ops, n, missing)),
                                    _ => {}
                                }
                            }
                        }
                        other => return Outcome::fail("provision:query-failed", format!("op {}: {:?}", i, other)),
                    }
                }
                OpKind::QueryInternal | OpKind::QueryHttp(_) => {
                    let missing: BTreeSet<Sub> = [Sub::Redirector, Sub::KeyLatch, Sub::Listener].into_iter().filter(|x| !ready.contains(x)).collect();
                    let (got_finished, got_error): (Option<bool>, String) = match out {
                        Some(Out::Internal { tick, error, channel: ch }) => {
                            if *ch != channel {
                                return Outcome::fail("provision:channel-state-differs", format!("op {}: reported {:?}, model {:?}", i, ch, channel));
                            }
                            match fin {
                                None => {
                                    if *tick != 0 {
                                        return Outcome::fail("provision:finished-tick-set-although-not-finished", format!("op {} ({:?}): tick {} but the model is not finished (ready {:?})", i, case.ops, tick, ready));
                                    }
                                }
                                Some((a, b)) => {
                                    if *tick < a || *tick > b {
                                        return Outcome::fail("provision:finished-tick-not-the-finishing-instant", format!("op {}: tick {} outside the finishing operation's window [{}, {}]", i, tick, a, b));
                                    }
                                }
                            }
                            (Some(*tick > 0), error.clone())
                        }
                        Some(Out::Http { status, finished, error, tick_sent }) => {
                            if *status != 200 || finished.is_none() {
                                return Outcome::fail("provision:query-not-answered", format!("op {}: status {} body finished={:?}", i, status, finished));
                            }
                            // sequential history: every earlier operation ended before this query was created, so the finished
                            // tick (if any) is older than a "now" or far-future query tick and newer than the ancient one
                            let want = latched(&channel) || (fin.is_some() && *tick_sent == 1);
                            if finished.unwrap() != want {
                                return Outcome::fail(
                                    if finished.unwrap() { "provision:finished-reported-prematurely" } else { "provision:finished-not-reported" },
                                    format!("op {} of {:?}: /provision says finished={} but the model says {} (ready {:?}, finishing window {:?}, query tick {}, channel {:?})", i, case.ops, finished.unwrap(), want, ready, fin, tick_sent, channel),
                                );
                            }
                            (None, error.clone())
                        }
                        other => return Outcome::fail("provision:query-failed", format!("op {}: {:?}", i, other)),
                    };
                    match named(&got_error) {
                        Err(e) => return Outcome::fail("provision:error-text-malformed", e),
                        Ok(n) => {
                            if n != missing {
                                return Outcome::fail("provision:error-text-does-not-name-exactly-the-missing-subsystems", format!("op {} of {:?}: names {:?}, not ready {:?}", i, case.ops, n, missing));
                            }
                        }
                    }
                    if let Some(f) = got_finished {
                        if last_finished.is_some() && last_finished != Some(f) {
                            nontrivial = true;
                        }
                        last_finished = Some(f);
                    }
                }
            }
        }
    } else {
        // ---------------- scheduled: possibility sets ----------------
        let possibly = |op: usize, q: usize| info[op].0 < info[q].1;
        let definitely = |op: usize, q: usize| info[op].1 < info[q].0;
        for (q, o) in case.ops.iter().enumerate() {
            if !matches!(o, OpKind::QueryInternal | OpKind::QueryHttp(_)) {
                continue;
            }
            let (finished, error, far_future): (bool, String, bool) = match &info[q].4 {
                Some(Out::Internal { tick, error, .. }) => (*tick > 0, error.clone(), false),
                Some(Out::Http { status, finished, error, .. }) => {
                    if *status != 200 || finished.is_none() {
                        return Outcome::fail("provision:query-not-answered", format!("op {}: status {}", q, status));
                    }
                    (finished.unwrap(), error.clone(), matches!(o, OpKind::QueryHttp(k) if k % 5 >= 2))
                }
                other => return Outcome::fail("provision:query-failed", format!("op {}: {:?}", q, other)),
            };
            let n = match named(&error) {
                Ok(n) => n,
                Err(e) => return Outcome::fail("provision:error-text-malformed", e),
            };
            let reports = |x: Sub| -> Vec<usize> { case.ops.iter().enumerate().filter(|(_, o)| **o == OpKind::Report(x)).map(|(i, _)| i).collect() };
            let resets: Vec<usize> = case.ops.iter().enumerate().filter(|(_, o)| **o == OpKind::ResetKeyLatch).map(|(i, _)| i).collect();
            let mut overlapping_reports = 0;
            for x in [Sub::Redirector, Sub::KeyLatch, Sub::Listener] {
                let hidden = x == Sub::Listener && listener_hidden;
                let poss = hidden || reports(x).iter().any(|r| possibly(*r, q));
                let def = hidden
                    || reports(x).iter().any(|s| definitely(*s, q) && !(x == Sub::KeyLatch && resets.iter().any(|r| info[*r].1 > info[*s].0 && possibly(*r, q))));
                overlapping_reports += reports(x).iter().filter(|r| possibly(**r, q) && !definitely(**r, q)).count();
                if !n.contains(&x) && !poss {
                    return Outcome::fail("provision:subsystem-reported-ready-before-its-report", format!("query op {} of {:?} (schedule {:?}): {:?} omitted from the error text although none of its reports had started", q, case.ops, case.schedule, x));
                }
                if n.contains(&x) && def {
                    return Outcome::fail("provision:subsystem-named-although-definitely-ready", format!("query op {} of {:?} (schedule {:?}): {:?} named although its report had completed and no reset could follow", q, case.ops, case.schedule, x));
                }
            }
            if overlapping_reports >= 2 || resets.iter().any(|r| reports(Sub::KeyLatch).iter().any(|s| info[*r].0 < info[*s].1 && info[*s].0 < info[*r].1)) {
                nontrivial = true;
            }
            let latched_possible = case.ops.iter().enumerate().any(|(i, o)| matches!(o, OpKind::SetChannel(k) if latched(CHANNEL_STATES[*k as usize % 4])) && possibly(i, q));
            let all_possible = [Sub::Redirector, Sub::KeyLatch, Sub::Listener].into_iter().all(|x| (x == Sub::Listener && listener_hidden) || reports(x).iter().any(|r| possibly(*r, q)));
            let timeup_possible = case.ops.iter().enumerate().any(|(i, o)| *o == OpKind::TimeUp && possibly(i, q));
            if finished && !(latched_possible || (!far_future && (all_possible || timeup_possible))) {
                return Outcome::fail(
                    "provision:finished-reported-prematurely",
                    format!("query op {} of {:?} (schedule {:?}) reports finished although neither all three reports nor the deadline nor a latched channel state could have happened before it ended (far-future tick: {})", q, case.ops, case.schedule, far_future),
                );
            }
        }
    }
    if let Some(p) = problems.first() {
        return Outcome::fail("provision:status-tag-not-replaced-atomically", p.clone());
    }
    if nontrivial {
        stats.nontrivial_hash(h64(case));
    }
    stats.sample(|| serde_json::json!({"ops": case.ops, "sequential": case.sequential, "schedule": case.schedule, "outcomes": info.iter().map(|i| format!("[{}..{}] {:?}", i.0, i.1, i.4)).collect::<Vec<_>>()}));
    Outcome::Pass
}
