//! C19 — disk usage by logs, events and rule dumps stays within configured bounds, after every step
//! of every history, including restarts that find the files left by earlier runs.

use crate::report::{h64, Stats};
use crate::runner::Outcome;
use proptest::prelude::*;
use proxy_agent_shared::logger::rolling_logger::RollingLogger;
use serde::{Deserialize, Serialize};
use std::path::{Path, PathBuf};
use std::time::Duration;

fn fresh_dir(tag: &str) -> PathBuf {
    let base = std::env::var("VERIF_OUT").unwrap_or_else(|_| "/verif/out/c19".into());
    let d = PathBuf::from(format!("{}.work/{}", base, tag));
    let _ = std::fs::remove_dir_all(&d);
    std::fs::create_dir_all(&d).unwrap();
    d
}

fn files_in(d: &Path) -> Vec<(String, u64)> {
    let mut v: Vec<(String, u64)> = std::fs::read_dir(d)
        .map(|rd| rd.flatten().filter(|e| e.path().is_file()).map(|e| (e.file_name().to_string_lossy().to_string(), e.metadata().map(|m| m.len()).unwrap_or(0))).collect())
        .unwrap_or_default();
    v.sort();
    v
}

// ------------------------------------------------------------------------------------------------
// rolling log

#[derive(Clone, Debug, Serialize, Deserialize, Hash)]
pub enum LogOp {
    Write(usize),
    WriteMany(Vec<usize>),
    Restart,
}

#[derive(Clone, Debug, Serialize, Deserialize, Hash)]
pub struct LogCase {
    pub size_limit: u64,
    pub count: u16,
    /// files left by an earlier run: sizes of archives (oldest first) and of the current file
    pub left_archives: Vec<u64>,
    pub left_current: Option<u64>,
    pub ops: Vec<LogOp>,
    /// index into LOG_NAMES (a log's file name is configuration: any file name)
    #[serde(default)]
    pub name_sel: u8,
}

pub const LOG_NAMES: &[&str] = &["ProxyAgent.log", "ProxyAgent.log", "ProxyAgent.Connection.log", "proxyagent", "proxy+agent.log", "Guest Proxy Agent (1).log", "agent[1].log", "$agent^.log", "agent(.log", "what?.log", "a|b.log", "back\\slash.log"];

pub fn log_strategy() -> impl Strategy<Value = LogCase> {
    let wsize = prop_oneof![5 => 1usize..80, 2 => 80usize..600, 1 => 600usize..5000];
    let op = prop_oneof![
        8 => wsize.clone().prop_map(LogOp::Write),
        2 => prop::collection::vec(wsize, 1..6).prop_map(LogOp::WriteMany),
        1 => Just(LogOp::Restart),
    ];
    (prop_oneof![Just(64u64), Just(100), Just(256), Just(1024), Just(4096), 64u64..4096], 1u16..7, prop::collection::vec(0u64..6000, 0..9), prop::option::weighted(0.5, 0u64..6000), prop::collection::vec(op, 1..60), 0u8..12)
        .prop_map(|(size_limit, count, left_archives, left_current, ops, name_sel)| LogCase { size_limit, count, left_archives, left_current, ops, name_sel })
}

pub fn eval_log(case: &LogCase, stats: &mut Stats) -> Outcome {
    let dir = fresh_dir("log");
    let name = LOG_NAMES[case.name_sel as usize % LOG_NAMES.len()];
    // an earlier run with the SAME settings never leaves more than `count` files
    // (a run that wrote anything always leaves a current file plus at most count-1 archives)
    let keep = if case.left_current.is_some() { (case.count as usize).saturating_sub(1) } else { 0 };
    let archives: Vec<u64> = case.left_archives.iter().rev().take(keep).rev().cloned().collect();
    for (i, sz) in archives.iter().enumerate() {
        let f = dir.join(format!("{}.2020-01-01T00.00.{:02}.000-15778368{:011}.log", name, i, i));
        std::fs::write(&f, vec![b'x'; *sz as usize]).unwrap();
    }
    if let Some(sz) = case.left_current {
        // (the logger gives its current file the extension .log whatever the configured name looks like)
        std::fs::write(dir.join(std::path::Path::new(name).with_extension("log")), vec![b'y'; sz as usize]).unwrap();
    }
    let started_full = archives.len() + case.left_current.map(|_| 1).unwrap_or(0) >= case.count as usize;
    let mut logger = RollingLogger::create_new(dir.clone(), name.to_string(), case.size_limit, case.count);
    let mut largest_write: u64 = case.left_current.unwrap_or(0).max(archives.iter().copied().max().unwrap_or(0));
    let mut reached = started_full;
    let mut continued_after_reach = false;
    // every file of the log, held open across the operation: the handle follows the file through the rename of a roll (and
    // keeps its inode from being reused if it is deleted)
    let open_all = |dir: &std::path::Path| -> Vec<(String, u64, std::fs::File)> {
        let mut v = Vec::new();
        if let Ok(rd) = std::fs::read_dir(dir) {
            for e in rd.flatten() {
                let n = e.file_name().to_string_lossy().to_string();
                if n.starts_with(name) {
                    if let Ok(f) = std::fs::File::open(e.path()) {
                        if let Ok(md) = f.metadata() {
                            v.push((n, md.len(), f));
                        }
                    }
                }
            }
        }
        v
    };
    for (i, op) in case.ops.iter().enumerate() {
        let before_op = open_all(&dir);
        let wrote: u64 = match op {
            LogOp::Write(n) => {
                let r = logger.write(proxy_agent_shared::logger::LoggerLevel::Info, "m".repeat(*n));
                if let Err(e) = r {
                    return Outcome::fail("logs:write-failed", format!("op {}: {}", i, e));
                }
                *n as u64 + 40
            }
            LogOp::WriteMany(v) => {
                let r = logger.write_many(v.iter().map(|n| "w".repeat(*n)).collect());
                if let Err(e) = r {
                    return Outcome::fail("logs:write-failed", format!("op {}: {}", i, e));
                }
                v.iter().map(|n| *n as u64 + 1).sum()
            }
            LogOp::Restart => {
                logger = RollingLogger::create_new(dir.clone(), name.to_string(), case.size_limit, case.count);
                0
            }
        };
        largest_write = largest_write.max(wrote);
        let files: Vec<(String, u64)> = files_in(&dir).into_iter().filter(|(n, _)| n.starts_with(name)).collect();
        if reached {
            continued_after_reach = true;
        }
        if files.len() >= case.count as usize {
            reached = true;
        }
        if files.len() > case.count as usize {
            return Outcome::fail("logs:more-files-than-configured-count", format!("after op {} {:?}: {} files {:?} with count {} (limit {})", i, op, files.len(), files, case.count, case.size_limit));
        }
        // a file that had reached its limit is rolled away before anything else is written: it never grows again
        for (n_before, sz_before, f) in &before_op {
            let sz_after = f.metadata().map(|m| m.len()).unwrap_or(*sz_before);
            if *sz_before >= case.size_limit && sz_after > *sz_before {
                return Outcome::fail("logs:file-at-its-limit-grew-further", format!("op {} {:?}: {} had {} bytes (limit {}) and grew to {} bytes", i, op, n_before, sz_before, case.size_limit, sz_after));
            }
        }
        drop(before_op);
        for (n, sz) in &files {
            if *sz > case.size_limit + largest_write {
                return Outcome::fail("logs:file-larger-than-limit-plus-one-write", format!("after op {} {:?}: {} has {} bytes; limit {} + largest single write {}", i, op, n, sz, case.size_limit, largest_write));
            }
        }
    }
    if reached && continued_after_reach {
        stats.nontrivial_hash(h64(case));
    }
    if started_full {
        stats.class("log:starts-at-the-bound");
    }
    stats.class("log:history");
    if name.chars().any(|c| "+()[]$^?|\\ ".contains(c)) {
        stats.class("log:file-name-with-characters-special-to-regular-expressions");
    }
    stats.sample(|| serde_json::json!({"rolling_log": {"size_limit": case.size_limit, "count": case.count, "left_archives": archives, "left_current": case.left_current, "ops": case.ops.len()}}));
    let _ = std::fs::remove_dir_all(&dir);
    Outcome::Pass
}

// ------------------------------------------------------------------------------------------------
// rule dumps

#[derive(Clone, Debug, Serialize, Deserialize, Hash)]
pub struct DumpCase {
    pub initial: usize,
    pub maxes: Vec<usize>,
    /// before this call a dangling symbolic link appears in the folder (the dumps share the log folder; a link to a
    /// rolled-away log makes listing the folder fail): from then on only the bound is asserted
    #[serde(default)]
    pub dangling_from: Option<usize>,
}

pub fn dump_strategy() -> impl Strategy<Value = DumpCase> {
    (0usize..10, prop::collection::vec(1usize..7, 1..10), prop::option::weighted(0.2, 0usize..6)).prop_map(|(initial, maxes, dangling_from)| DumpCase { initial, maxes, dangling_from })
}

pub fn eval_dump(case: &DumpCase, stats: &mut Stats) -> Outcome {
    use azure_proxy_agent::proxy::authorization_rules::{AuthorizationRulesForLogging, ComputedAuthorizationRules};
    let dir = fresh_dir("dump");
    // earlier dumps: written by the same function shape, with past dates (so creation order = name order)
    let mut order: Vec<String> = Vec::new();
    for i in 0..case.initial {
        let n = format!("AuthorizationRules_2020-01-01T00.00.{:02}.000-15778368{:011}.json", i, i);
        std::fs::write(dir.join(&n), b"{}").unwrap();
        order.push(n);
    }
    let rules = AuthorizationRulesForLogging::new(None, ComputedAuthorizationRules { imds: None, wireserver: None, hostga: None });
    let mut reached = false;
    let mut nontrivial = false;
    for (i, max) in case.maxes.iter().enumerate() {
        if case.dangling_from == Some(i) {
            let _ = std::os::unix::fs::symlink(dir.join("ProxyAgent.log.rolled-away"), dir.join("ProxyAgent.log.latest"));
            stats.class("dumps:dangling-link-in-the-folder");
        }
        let before: Vec<String> = files_in(&dir).into_iter().map(|(n, _)| n).filter(|n| n.starts_with("AuthorizationRules_")).collect();
        rules.write_all(&dir, *max);
        let after: Vec<String> = files_in(&dir).into_iter().map(|(n, _)| n).filter(|n| n.starts_with("AuthorizationRules_") && n.ends_with(".json")).collect();
        if case.dangling_from.map(|k| i >= k).unwrap_or(false) {
            // listing may fail now: whether a dump is written is not asserted, the bound is
            if after.len() > (*max).max(before.len()) {
                return Outcome::fail("dumps:more-dumps-than-configured", format!("op {} (a dangling link is in the folder): {} dumps before, {} after, max {}", i, before.len(), after.len(), max));
            }
            order = after.clone();
            nontrivial = true;
            continue;
        }
        let new: Vec<String> = after.iter().filter(|n| !before.contains(n)).cloned().collect();
        if new.len() != 1 {
            return Outcome::fail("dumps:write-did-not-add-exactly-one-dump", format!("op {} (max {}): before {:?} after {:?}", i, max, before, after));
        }
        order.push(new[0].clone());
        if after.len() > *max {
            return Outcome::fail("dumps:more-dumps-than-configured", format!("op {}: {} dumps kept with max {}: {:?}", i, after.len(), max, after));
        }
        // survivors are the newest ones
        let survivors: Vec<&String> = order.iter().filter(|n| after.contains(n)).collect();
        let expected: Vec<&String> = order.iter().rev().take(after.len()).rev().collect();
        if survivors != expected {
            return Outcome::fail("dumps:not-the-oldest-removed-first", format!("op {} (max {}): kept {:?}, the newest {} are {:?}", i, max, survivors, after.len(), expected));
        }
        order.retain(|n| after.contains(n));
        if reached {
            nontrivial = true;
        }
        if before.len() >= *max {
            reached = true;
            nontrivial = true;
        }
        // names must differ even within one millisecond
        std::thread::sleep(Duration::from_micros(50));
    }
    if nontrivial {
        stats.nontrivial_hash(h64(case));
    }
    stats.class("dumps:history");
    stats.sample(|| serde_json::json!({"rule_dumps": case}));
    let _ = std::fs::remove_dir_all(&dir);
    Outcome::Pass
}

// ------------------------------------------------------------------------------------------------
// event files

#[derive(Clone, Debug, Serialize, Deserialize, Hash)]
pub enum EvOp {
    Burst(u16),
    /// the reader consumes (deletes) this many of the oldest files
    Consume(u8),
    Wait,
}

#[derive(Clone, Debug, Serialize, Deserialize, Hash)]
pub struct EvCase {
    /// files in the directory that are not event files (e.g. the `<nano>.tmp` of a write that was interrupted): they count too
    #[serde(default)]
    pub stray: usize,
    pub cap: usize,
    pub initial: usize,
    pub ops: Vec<EvOp>,
}

pub fn ev_strategy() -> impl Strategy<Value = EvCase> {
    let op = prop_oneof![4 => (1u16..40).prop_map(EvOp::Burst), 1 => (100u16..900).prop_map(EvOp::Burst), 1 => (1u8..4).prop_map(EvOp::Consume), 5 => Just(EvOp::Wait)];
    (1usize..6, 0usize..9, prop::collection::vec(op, 2..16), prop_oneof![3 => Just(0usize), 1 => 1usize..3]).prop_map(|(cap, initial, ops, stray)| EvCase { stray, cap, initial, ops })
}

pub fn eval_ev(case: &EvCase, stats: &mut Stats) -> Outcome {
    let dir = fresh_dir("events");
    for i in 0..case.initial {
        std::fs::write(dir.join(format!("15778368{:011}.json", i)), b"[]").unwrap();
    }
    for i in 0..case.stray {
        std::fs::write(dir.join(format!("15778367{:011}.tmp", i)), b"[{\"interrupted").unwrap();
    }
    let initial = case.initial + case.stray;
    let rt = tokio::runtime::Builder::new_current_thread().enable_all().build().unwrap();
    let d2 = dir.clone();
    let cap = case.cap;
    let mut reached = initial >= case.cap;
    let mut went_on = false;
    let r: Result<(), (String, String)> = rt.block_on(async {
        tokio::spawn(async move {
            proxy_agent_shared::telemetry::event_logger::start(d2, Duration::from_millis(1), cap, |_s: String| async {}).await;
        });
        let mut pending_events = false;
        for (i, op) in case.ops.iter().enumerate() {
            match op {
                EvOp::Burst(n) => {
                    for k in 0..*n {
                        proxy_agent_shared::telemetry::event_logger::write_event(proxy_agent_shared::logger::LoggerLevel::Info, format!("event {} of burst {}", k, i), "m", "c19", "none");
                    }
                    pending_events = true;
                }
                EvOp::Consume(n) => {
                    let fs_ = files_in(&dir);
                    for (name, _) in fs_.iter().take(*n as usize) {
                        let _ = std::fs::remove_file(dir.join(name));
                    }
                }
                EvOp::Wait => {
                    let before = files_in(&dir).len();
                    tokio::time::sleep(Duration::from_millis(6)).await;
                    let after = files_in(&dir).len();
                    if reached {
                        went_on = true;
                    }
                    if before >= cap {
                        reached = true;
                        if after > before {
                            return Err(("events:file-written-although-directory-at-cap".to_string(), format!("op {}: {} files before the flush (cap {}), {} after", i, before, cap, after)));
                        }
                    }
                    if after > cap.max(initial) {
                        return Err(("events:more-files-than-cap".to_string(), format!("op {}: {} files with cap {} (initially {}, {} of them not event files)", i, after, cap, initial, case.stray)));
                    }
                    let _ = pending_events;
                    pending_events = false;
                }
            }
        }
        Ok(())
    });
    drop(rt);
    // drain whatever the global queue still holds so that the next case starts clean
    let rt2 = tokio::runtime::Builder::new_current_thread().enable_all().build().unwrap();
    let d3 = fresh_dir("events-drain");
    rt2.block_on(async {
        let d4 = d3.clone();
        tokio::spawn(async move {
            proxy_agent_shared::telemetry::event_logger::start(d4, Duration::from_millis(1), 1000, |_s: String| async {}).await;
        });
        tokio::time::sleep(Duration::from_millis(4)).await;
    });
    drop(rt2);
    let _ = std::fs::remove_dir_all(&d3);
    let _ = std::fs::remove_dir_all(&dir);
    if let Err((s, d)) = r {
        return Outcome::fail(s, d);
    }
    if reached && went_on {
        stats.nontrivial_hash(h64(case));
    }
    stats.class("events:history");
    stats.sample(|| serde_json::json!({"event_files": case}));
    Outcome::Pass
}

// ------------------------------------------------------------------------------------------------
// event files: the final flush when the logger is stopped. `stop()` closes a process-wide queue for good,
// so every history runs in a child process (this executable with VERIF_C19_STOP_CASE set).

#[derive(Clone, Debug, Serialize, Deserialize, Hash)]
pub struct StopCase {
    pub cap: usize,
    pub initial: usize,
    /// (events written, wait for the flush afterwards)
    pub bursts: Vec<(u16, bool)>,
    /// events still queued when stop() is called
    pub queued_at_stop: u16,
    pub interval_ms: u8,
}

pub fn stop_strategy() -> impl Strategy<Value = StopCase> {
    (1usize..6, 0usize..8, prop::collection::vec((prop_oneof![4 => 1u16..30, 1 => 100u16..900], prop::bool::weighted(0.7)), 0..6), 0u16..8, 1u8..4).prop_map(|(cap, initial, bursts, queued_at_stop, interval_ms)| StopCase { cap, initial, bursts, queued_at_stop, interval_ms })
}

/// child side: run the history, print one JSON line {"violation": null | [signature, detail], "at_cap_at_stop": bool}
pub fn stop_child(case_json: &str) -> ! {
    let case: StopCase = serde_json::from_str(case_json).expect("stop case");
    let dir = PathBuf::from(std::env::var("VERIF_C19_DIR").expect("VERIF_C19_DIR"));
    let _ = std::fs::create_dir_all(&dir);
    for i in 0..case.initial {
        std::fs::write(dir.join(format!("15778368{:011}.json", i)), b"[]").unwrap();
    }
    let bound = case.cap.max(case.initial);
    let iv = Duration::from_millis(case.interval_ms as u64);
    let rt = tokio::runtime::Builder::new_current_thread().enable_all().build().unwrap();
    let d2 = dir.clone();
    let cap = case.cap;
    let (violation, at_cap): (Option<(String, String)>, bool) = rt.block_on(async {
        let task = tokio::spawn(async move {
            proxy_agent_shared::telemetry::event_logger::start(d2, iv, cap, |_s: String| async {}).await;
        });
        for (i, (n, wait)) in case.bursts.iter().enumerate() {
            for k in 0..*n {
                proxy_agent_shared::telemetry::event_logger::write_event(proxy_agent_shared::logger::LoggerLevel::Info, format!("event {} of burst {}", k, i), "m", "c19", "none");
            }
            if *wait {
                tokio::time::sleep(iv * 6).await;
                let n = files_in(&dir).len();
                if n > bound {
                    return (Some(("events:more-files-than-cap".to_string(), format!("burst {}: {} files with cap {} (initially {})", i, n, case.cap, case.initial))), false);
                }
            }
        }
        let before = files_in(&dir).len();
        for k in 0..case.queued_at_stop {
            proxy_agent_shared::telemetry::event_logger::write_event(proxy_agent_shared::logger::LoggerLevel::Info, format!("late event {}", k), "m", "c19", "none");
        }
        proxy_agent_shared::telemetry::event_logger::stop();
        let _ = tokio::time::timeout(iv * 40 + Duration::from_millis(200), task).await;
        let after = files_in(&dir).len();
        if after > bound {
            return (Some(("events:more-files-than-cap-after-stop".to_string(), format!("{} files after stop() with {} events queued, cap {} (initially {}, {} before the stop)", after, case.queued_at_stop, case.cap, case.initial, before))), before >= case.cap);
        }
        (None, before >= case.cap)
    });
    println!("{}", serde_json::json!({"violation": violation, "at_cap_at_stop": at_cap}));
    std::process::exit(0);
}

pub fn eval_stop(case: &StopCase, stats: &mut Stats) -> Outcome {
    let dir = fresh_dir("events-stop");
    let exe = match std::env::current_exe() {
        Ok(e) => e,
        Err(e) => return Outcome::fail("rig:no-current-exe", e.to_string()),
    };
    let out = std::process::Command::new(exe).env("VERIF_C19_STOP_CASE", serde_json::to_string(case).unwrap()).env("VERIF_C19_DIR", &dir).stdin(std::process::Stdio::null()).output();
    let _ = std::fs::remove_dir_all(&dir);
    let out = match out {
        Ok(o) => o,
        Err(e) => return Outcome::fail("rig:cannot-spawn-child", e.to_string()),
    };
    let text = String::from_utf8_lossy(&out.stdout).to_string();
    let v: serde_json::Value = match text.lines().rev().find_map(|l| serde_json::from_str(l).ok()) {
        Some(v) => v,
        None => return Outcome::fail("events:logger-process-died", format!("status {:?}; stdout {:?}; stderr {:?}", out.status, text.chars().take(300).collect::<String>(), String::from_utf8_lossy(&out.stderr).chars().take(600).collect::<String>())),
    };
    stats.class("events:stop-history");
    let at_cap = v["at_cap_at_stop"].as_bool().unwrap_or(false);
    if at_cap && case.queued_at_stop > 0 {
        stats.class("events:stop-with-events-queued-and-directory-at-cap");
        stats.nontrivial_hash(h64(case));
    }
    stats.sample(|| serde_json::json!({"event_logger_stop": case}));
    if let Some(a) = v["violation"].as_array() {
        return Outcome::fail(a[0].as_str().unwrap_or("events:unknown"), a[1].as_str().unwrap_or("").to_string());
    }
    Outcome::Pass
}

pub const RULE: &str = "three engines on instance APIs. rolling log: RollingLogger::create_new(dir, name from 11 file names - the agent's own and names with blanks, + ( ) [ ] $ ^ ? | and a backslash -, size limit 64..4096, count 1..6) on a directory left by an earlier run with the same settings (0..count files, possibly at the bound, current file possibly over the limit); ops Write(n), WriteMany([n..]), Restart (new instance on the same directory), 1-59 ops; after EVERY op: files of the log <= count, every file <= limit + largest single write so far, and no file (followed through an open handle across the rename of a roll) that had reached the limit before the op grew during it. rule dumps: AuthorizationRulesForLogging::write_all(dir, max 1..6) on directories holding 0..9 earlier dumps, 1-9 calls with varying max; after every call: exactly one new dump, dumps <= max, survivors are the newest in creation order; in 20% of the histories a dangling symbolic link appears in the folder at some call (listing the folder may then fail): from then on only 'the number of dumps does not grow beyond max(max, what was there)' is asserted. event files: event_logger::start(dir, 1 ms, cap 1..5) over a directory pre-populated with 0..8 event files and, in a quarter of the cases, 1-2 files that are not event files (the .tmp of an interrupted write); ops Burst(n events, 1-39 or 100-899), Consume(k oldest files, as the reader does), Wait(6 flush intervals); after every wait: file count <= max(cap, initial) and a flush that found the directory at the cap created no file. the final flush: each history in a child process (stop() closes a process-wide queue): pre-populated directory, bursts with or without waiting, then 0-7 events queued and stop() at once; after the logger task has ended: file count <= max(cap, initial). non-trivial: history that reaches the bound and continues, or starts at/over it, or stops at the cap with events queued; distinct by hash of the history.";
