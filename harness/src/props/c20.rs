//! C20 — extension health hysteresis and rate-limited state notifications.

use crate::report::{h64, Stats};
use crate::runner::Outcome;
use proptest::prelude::*;
use proxy_agent_ext::common::StatusState;
use proxy_agent_ext::constants;
use proxy_agent_ext::service_main::service_state::ServiceState;
use serde::{Deserialize, Serialize};

#[derive(Clone, Copy, PartialEq, Eq, Debug)]
pub enum R {
    Transitioning,
    Success,
    Error,
}

fn parse_report(s: &str) -> Option<R> {
    if s == constants::TRANSITIONING_STATUS {
        Some(R::Transitioning)
    } else if s == constants::SUCCESS_STATUS {
        Some(R::Success)
    } else if s == constants::ERROR_STATUS {
        Some(R::Error)
    } else {
        None
    }
}

/// reference automaton: thresholds 1 (to Success / away from Success / away from Error) and 20 (to Error)
pub struct RefAuto {
    state: R,
    fails: u64,
    succ: u64,
}
impl RefAuto {
    pub fn new() -> Self {
        RefAuto { state: R::Transitioning, fails: 0, succ: 0 }
    }
    pub fn step(&mut self, ok: bool) -> R {
        if ok {
            self.fails = 0;
            self.succ += 1;
        } else {
            self.succ = 0;
            self.fails += 1;
        }
        self.state = match self.state {
            R::Success => if self.fails >= 1 { R::Transitioning } else { R::Success },
            R::Transitioning => if self.succ >= 1 { R::Success } else if self.fails >= 20 { R::Error } else { R::Transitioning },
            R::Error => if self.succ >= 1 { R::Transitioning } else { R::Error },
        };
        self.state
    }
}

/// run `obs` through the implementation, checking the automaton and the statement's trace predicates
/// after every step. Returns the failure description if any.
pub fn check_sequence(obs: &mut dyn Iterator<Item = bool>, liveness_tail: bool) -> Result<(u64, u64), (String, String)> {
    check_sequence_from(StatusState::new(), obs, liveness_tail)
}

/// the same, starting from a given freshly constructed automaton (`StatusState::new()` or `StatusState::default()`)
pub fn check_sequence_from(fresh: StatusState, obs: &mut dyn Iterator<Item = bool>, liveness_tail: bool) -> Result<(u64, u64), (String, String)> {
    let mut imp = fresh;
    let mut rf = RefAuto::new();
    let mut fail_run: u64 = 0; // consecutive failures ending at the current step
    let mut prev_ok = false;
    let mut longest_fail_run = 0u64;
    let mut steps = 0u64;
    let step = |ok: bool, imp: &mut StatusState, rf: &mut RefAuto, fail_run: &mut u64, prev_ok: &mut bool, steps: &mut u64| -> Result<R, (String, String)> {
        let text = imp.update_state(ok);
        let got = parse_report(&text).ok_or_else(|| ("health:unknown-report".to_string(), format!("report '{}' at step {}", text, steps)))?;
        let want = rf.step(ok);
        if ok {
            *fail_run = 0;
        } else {
            *fail_run += 1;
        }
        // trace predicates taken from the statement
        if got == R::Error && *fail_run < 20 {
            return Err(("health:error-before-20-consecutive-failures".into(), format!("Error reported at step {} after only {} consecutive failures", steps, fail_run)));
        }
        if ok && got == R::Error {
            return Err(("health:error-reported-on-success".into(), format!("Error reported at step {} whose observation is a success", steps)));
        }
        if ok && *prev_ok && got != R::Success {
            return Err(("health:two-successes-not-success".into(), format!("{:?} reported at step {} after two consecutive successes", got, steps)));
        }
        if got != want {
            return Err(("health:differs-from-reference-automaton".into(), format!("step {}: implementation {:?}, reference {:?}", steps, got, want)));
        }
        *prev_ok = ok;
        *steps += 1;
        Ok(got)
    };
    for ok in obs {
        step(ok, &mut imp, &mut rf, &mut fail_run, &mut prev_ok, &mut steps)?;
        longest_fail_run = longest_fail_run.max(fail_run);
    }
    if liveness_tail {
        // no wedge: from wherever we are, two successes give Success, then 21 failures give Error again,
        // then a single success leaves Error
        let mut last = R::Transitioning;
        for _ in 0..2 {
            last = step(true, &mut imp, &mut rf, &mut fail_run, &mut prev_ok, &mut steps)?;
        }
        if last != R::Success {
            return Err(("health:wedged-cannot-reach-success".into(), format!("{:?} after two trailing successes", last)));
        }
        for _ in 0..21 {
            last = step(false, &mut imp, &mut rf, &mut fail_run, &mut prev_ok, &mut steps)?;
        }
        if last != R::Error {
            return Err(("health:wedged-cannot-reach-error".into(), format!("{:?} after 21 trailing failures", last)));
        }
        last = step(true, &mut imp, &mut rf, &mut fail_run, &mut prev_ok, &mut steps)?;
        if last == R::Error {
            return Err(("health:success-does-not-leave-error".into(), "still Error after a success".into()));
        }
    }
    Ok((steps, longest_fail_run))
}

/// Exhaustive part: every boolean sequence of length `len` (every shorter sequence is a prefix of one
/// of them, and all predicates are checked after every step). Worker `w` of `n` takes the sequences
/// whose low bits equal `w` mod `n`.
pub fn exhaustive(len: u32, worker: u32, workers: u32, stats: &mut Stats) -> Option<(String, String, Vec<bool>)> {
    let total: u64 = 1u64 << len;
    let mut bits = worker as u64;
    while bits < total {
        let mut it = (0..len).map(|i| (bits >> i) & 1 == 1);
        stats.eval();
        match check_sequence(&mut it, (bits & 0xff) == 0) {
            Ok((_, longest)) => {
                if longest >= 19 {
                    stats.nontrivial_hash(h64(&("seq", len, bits)));
                    stats.class("exhaustive:failure-run>=19");
                    if longest >= 20 {
                        stats.class("exhaustive:failure-run>=20");
                    }
                }
                if bits % 600_011 == 0 {
                    let seq: String = (0..len).map(|i| if (bits >> i) & 1 == 1 { 'S' } else { 'f' }).collect();
                    stats.sample(|| serde_json::json!({"exhaustive_sequence": seq}));
                }
            }
            Err((sig, detail)) => {
                return Some((sig, detail, (0..len).map(|i| (bits >> i) & 1 == 1).collect()));
            }
        }
        // the other way to obtain a fresh automaton (the Default trait): every 18-step prefix, continued by failures
        if bits < (1u64 << 18) {
            let mut it = (0..len).map(|i| (bits >> i) & 1 == 1);
            stats.eval();
            stats.class("exhaustive:from-StatusState::default()");
            if let Err((sig, detail)) = check_sequence_from(StatusState::default(), &mut it, (bits & 0xff) == 0) {
                return Some((format!("{}(from-default-constructor)", sig), detail, (0..len).map(|i| (bits >> i) & 1 == 1).collect()));
            }
        }
        bits += workers as u64;
    }
    None
}

// ------------------------------------------------------------------------------------------------
// generated long sequences (run lengths around the thresholds and the saturation point)

#[derive(Clone, Debug, Serialize, Deserialize, Hash)]
pub struct RunsCase {
    /// alternating runs, starting with `first_ok`
    pub first_ok: bool,
    pub runs: Vec<u32>,
}

pub fn run_len() -> impl Strategy<Value = u32> {
    prop_oneof![
        8 => 1u32..4,
        4 => prop::sample::select(vec![18u32, 19, 20, 21, 22]),
        2 => prop::sample::select(vec![9_999u32, 10_000, 10_001, 10_020, 10_019]),
        1 => 1u32..12_000,
    ]
}

pub fn runs_strategy() -> impl Strategy<Value = RunsCase> {
    (any::<bool>(), prop::collection::vec(run_len(), 1..14)).prop_map(|(first_ok, runs)| RunsCase { first_ok, runs })
}

/// the same case space, addressed by the words of a fuzz input (see `crate::words`): one word per run
pub fn runs_from_words(w: &mut crate::words::Words) -> RunsCase {
    let h = w.next();
    let n = w.words_left().clamp(1, 13);
    RunsCase { first_ok: h & 1 == 1, runs: (0..n).map(|_| crate::words::draw(&run_len(), w.next())).collect() }
}

pub fn eval_runs(case: &RunsCase, stats: &mut Stats) -> Outcome {
    let mut ok = case.first_ok;
    let mut seq: Vec<(bool, u32)> = Vec::new();
    for r in &case.runs {
        seq.push((ok, *r));
        ok = !ok;
    }
    let mut it = seq.iter().flat_map(|(b, n)| std::iter::repeat(*b).take(*n as usize));
    let saturating = case.runs.iter().any(|r| *r >= 10_000);
    let fail19 = seq.iter().any(|(b, n)| !*b && *n >= 19);
    if saturating {
        stats.class("runs:saturating-run");
    }
    if fail19 {
        stats.class("runs:failure-run>=19");
    }
    if saturating || fail19 {
        stats.nontrivial_hash(h64(case));
    }
    stats.sample(|| serde_json::json!({"runs": seq.iter().map(|(b, n)| format!("{}x{}", if *b { "S" } else { "f" }, n)).collect::<Vec<_>>()}));
    match check_sequence(&mut it, true) {
        Ok(_) => Outcome::Pass,
        Err((sig, detail)) => Outcome::fail(sig, detail),
    }
}

// ------------------------------------------------------------------------------------------------
// state notifications

#[derive(Clone, Debug, Serialize, Deserialize, Hash)]
pub struct NotifyCase {
    pub max_count: u32,
    /// (key index, value index, repeat count)
    pub ops: Vec<(u8, u8, u32)>,
}

pub fn notify_strategy() -> impl Strategy<Value = NotifyCase> {
    let max = prop_oneof![3 => Just(120u32), 1 => 1u32..6, 1 => 2u32..40];
    prop_oneof![
        4 => (
            max.clone(),
            prop::collection::vec((0u8..3, prop_oneof![6 => 0u8..3, 1 => 3u8..6, 1 => 6u8..8], prop_oneof![6 => 1u32..4, 2 => prop::sample::select(vec![119u32, 120, 121, 239, 240, 241]), 1 => 1u32..300]), 1..12),
        )
            .prop_map(|(max_count, ops)| NotifyCase { max_count, ops }),
        // many state keys (the service has two today; the limiter is per key, however many there are)
        1 => (max, prop_oneof![Just(8u8), Just(17u8), Just(33u8), Just(65u8), Just(200u8)], prop::collection::vec((any::<u8>(), prop_oneof![6 => 0u8..3, 1 => 3u8..6, 1 => 6u8..8], prop_oneof![8 => 1u32..3, 1 => prop::sample::select(vec![119u32, 120, 121])]), 20..120))
            .prop_map(|(max_count, width, ops)| NotifyCase { max_count, ops: ops.into_iter().map(|(k, v, r)| (k % width, v, r)).collect() }),
    ]
}

/// one word per operation
pub fn notify_from_words(w: &mut crate::words::Words) -> NotifyCase {
    use crate::words::draw;
    let max_count = draw(&prop_oneof![3 => Just(120u32), 1 => 1u32..6, 1 => 2u32..40], w.next());
    let n = w.words_left().clamp(1, 60);
    // (longer inputs address more state keys: the key space grows with the number of operations)
    let width: u8 = if n > 11 { 40 } else { 3 };
    let op = (0u8..width, prop_oneof![6 => 0u8..3, 1 => 3u8..6, 1 => 6u8..8], prop_oneof![6 => 1u32..4, 2 => prop::sample::select(vec![119u32, 120, 121, 239, 240, 241]), 1 => 1u32..300]);
    NotifyCase { max_count, ops: (0..n).map(|_| draw(&op, w.next())).collect() }
}

/// values: the two the service uses, the empty string, and long texts (a formatted error message is a value like any other):
/// 64 / 65 / 300 characters, the last two with a long common prefix
pub fn value_text(v: u8) -> &'static str {
    const LONG64: &str = "error: aaaaaaaaaaaaaaaaaaaaaaaaaaaaaaaaaaaaaaaaaaaaaaaaaaaaaaaaa";
    const LONG65: &str = "error: aaaaaaaaaaaaaaaaaaaaaaaaaaaaaaaaaaaaaaaaaaaaaaaaaaaaaaaaaX";
    const LONG300: &str = "error: aaaaaaaaaaaaaaaaaaaaaaaaaaaaaaaaaaaaaaaaaaaaaaaaaaaaaaaaaYbbbbbbbbbbbbbbbbbbbbbbbbbbbbbbbbbbbbbbbbbbbbbbbbbbbbbbbbbbbbbbbbbbbbbbbbbbbbbbbbbbbbbbbbbbbbbbbbbbbbbbbbbbbbbbbbbbbbbbbbbbbbbbbbbbbbbbbbbbbbbbbbbbbbbbbbbbbbbbbbbbbbbbbbbbbbbbbbbbbbbbbbbbbbbbbbbbbbbbbbbbbbbbbbbbbbbbbbbbbbbbbbbbbbbbbbbbb";
    ["success", "", "error", LONG64, LONG65, LONG300, "Error", "SUCCESS"][v as usize % 8]
}

pub fn eval_notify(case: &NotifyCase, stats: &mut Stats) -> Outcome {
    let mut imp = ServiceState::default();
    // reference: per key (last value, calls since and including the last emission)
    let mut rf: std::collections::BTreeMap<u8, (u8, u64)> = Default::default();
    let mut long_run = false;
    let mut n = 0u64;
    let distinct_keys = case.ops.iter().map(|o| o.0).collect::<std::collections::BTreeSet<_>>().len();
    if distinct_keys > 3 {
        stats.class(if distinct_keys >= 17 { "notify:>=17-state-keys" } else { "notify:4-16-state-keys" });
    }
    if case.ops.iter().any(|o| (3..6).contains(&(o.1 % 8))) {
        stats.class("notify:value-of-64-or-more-characters");
    }
    for (k, v, rep) in &case.ops {
        if *rep >= case.max_count {
            long_run = true;
        }
        for _ in 0..*rep {
            // values: the two the service uses, and the empty string (a value like any other)
            let got = imp.update_service_state_entry(&format!("key{}", k), value_text(*v), case.max_count);
            let want = match rf.get_mut(k) {
                None => {
                    rf.insert(*k, (*v, 1));
                    true
                }
                Some((lv, cnt)) => {
                    if *lv != *v || *cnt >= case.max_count as u64 {
                        *lv = *v;
                        *cnt = 1;
                        true
                    } else {
                        *cnt += 1;
                        false
                    }
                }
            };
            if got != want {
                return Outcome::fail(
                    "notify:differs-from-reference",
                    format!("call {} (key{} value{} max {}): implementation {}, reference {}", n, k, v, case.max_count, got, want),
                );
            }
            n += 1;
        }
    }
    if long_run {
        stats.class("notify:run>=max_count");
        stats.nontrivial_hash(h64(case));
    }
    stats.sample(|| serde_json::json!({"max_count": case.max_count, "ops(key,value,repeats)": case.ops}));
    Outcome::Pass
}

pub const RULE: &str = "health: (a) EXHAUSTIVE: every success/failure sequence of length 22 from the initial state (2^22; every shorter sequence is a prefix and all predicates are checked after every step), one in 256 followed by a liveness tail (2 successes => Success, 21 failures => Error, 1 success => not Error); the 2^18 sequences whose last steps are failures are also run from StatusState::default(); (b) generated alternating runs with lengths around 1..3, 18..22 and the counters' saturation point 9999..10020, always followed by the liveness tail; (c) notification sequences over 3 keys (a fifth of the cases: 20-119 operations over up to 8/17/33/65/200 keys) x 8 values (success, error, the empty string, texts of 64 / 65 / 300 characters, and Error / SUCCESS: values are compared as spelled), max_count 120 (production) or small, repeat counts around max_count and 2*max_count. oracle: reference automaton + trace predicates from the statement (Error only with >= 20 consecutive failures ending at that step, never on a success step, two successes => Success), reference rate limiter. non-trivial: sequence with a failure run >= 19 or a saturating run; notification history with a run >= max_count; distinct by hash of the sequence.";
