pub mod c02;
pub mod c03;
pub mod c04;
pub mod c20;
pub mod c01;
pub mod c05;
pub mod c14;
pub mod c15;
