//! Hand-written HTTP/1.1 message reading and writing over std sockets. Used by the raw client and
//! the mock hosts, so that the relay is checked against a reading of the wire that is independent
//! of hyper.

use std::io::{Read, Write};
use std::net::TcpStream;
use std::os::unix::io::FromRawFd;
use std::time::{Duration, Instant};

#[derive(Clone, Debug, PartialEq, Eq)]
pub struct Head {
    /// request: method, target, version; response: version, status, reason
    pub start: (String, String, String),
    pub headers: Vec<(String, Vec<u8>)>,
    pub raw: Vec<u8>,
}

impl Head {
    pub fn get_all(&self, name: &str) -> Vec<&[u8]> {
        self.headers.iter().filter(|(n, _)| n.eq_ignore_ascii_case(name)).map(|(_, v)| v.as_slice()).collect()
    }
    pub fn get(&self, name: &str) -> Option<&[u8]> {
        self.get_all(name).into_iter().next()
    }
}

pub fn trim_ows(v: &[u8]) -> &[u8] {
    let mut s = 0;
    let mut e = v.len();
    while s < e && (v[s] == b' ' || v[s] == b'\t') {
        s += 1;
    }
    while e > s && (v[e - 1] == b' ' || v[e - 1] == b'\t') {
        e -= 1;
    }
    &v[s..e]
}

/// position just after the blank line that ends the head, if complete
pub fn head_end(buf: &[u8]) -> Option<usize> {
    buf.windows(4).position(|w| w == b"\r\n\r\n").map(|p| p + 4)
}

/// parse a complete head (`buf[..end]`); header values are kept as raw bytes with optional whitespace trimmed
pub fn parse_head(buf: &[u8]) -> Result<Head, String> {
    let end = head_end(buf).ok_or("incomplete head")?;
    let text = &buf[..end - 4];
    let mut lines = text.split(|b| *b == b'\n').map(|l| if l.last() == Some(&b'\r') { &l[..l.len() - 1] } else { l });
    let start = lines.next().ok_or("no start line")?;
    let start_s = String::from_utf8_lossy(start).to_string();
    let mut it = start_s.splitn(3, ' ');
    let a = it.next().unwrap_or("").to_string();
    let b = it.next().unwrap_or("").to_string();
    let c = it.next().unwrap_or("").to_string();
    let mut headers = Vec::new();
    for l in lines {
        if l.is_empty() {
            continue;
        }
        let colon = l.iter().position(|x| *x == b':').ok_or_else(|| format!("header line without colon: {:?}", String::from_utf8_lossy(l)))?;
        let name = String::from_utf8_lossy(&l[..colon]).to_string();
        headers.push((name, trim_ows(&l[colon + 1..]).to_vec()));
    }
    Ok(Head { start: (a, b, c), headers, raw: buf[..end].to_vec() })
}

#[derive(Clone, Debug, PartialEq, Eq)]
pub enum Framing {
    None,
    Length(usize),
    Chunked,
    UntilClose,
}

pub fn request_framing(h: &Head) -> Framing {
    if let Some(te) = h.get("transfer-encoding") {
        if String::from_utf8_lossy(te).to_ascii_lowercase().contains("chunked") {
            return Framing::Chunked;
        }
    }
    if let Some(cl) = h.get("content-length") {
        if let Ok(n) = String::from_utf8_lossy(cl).trim().parse::<usize>() {
            return Framing::Length(n);
        }
    }
    Framing::None
}

pub fn response_framing(h: &Head, request_method: &str) -> Framing {
    let status: u16 = h.start.1.parse().unwrap_or(0);
    if request_method.eq_ignore_ascii_case("HEAD") || (100..200).contains(&status) || status == 204 || status == 304 {
        return Framing::None;
    }
    if let Some(te) = h.get("transfer-encoding") {
        if String::from_utf8_lossy(te).to_ascii_lowercase().contains("chunked") {
            return Framing::Chunked;
        }
    }
    if let Some(cl) = h.get("content-length") {
        if let Ok(n) = String::from_utf8_lossy(cl).trim().parse::<usize>() {
            return Framing::Length(n);
        }
    }
    Framing::UntilClose
}

/// Incremental chunked decoder: returns Some((decoded, bytes consumed)) when the terminating chunk
/// (and the trailer section's final CRLF) is complete in `buf`.
pub fn decode_chunked(buf: &[u8]) -> Result<Option<(Vec<u8>, usize)>, String> {
    let mut pos = 0;
    let mut out = Vec::new();
    loop {
        let line_end = match buf[pos..].windows(2).position(|w| w == b"\r\n") {
            Some(p) => pos + p,
            None => return Ok(None),
        };
        let line = String::from_utf8_lossy(&buf[pos..line_end]).to_string();
        let size_text = line.split(';').next().unwrap_or("").trim();
        let size = usize::from_str_radix(size_text, 16).map_err(|_| format!("bad chunk size line {:?}", line))?;
        pos = line_end + 2;
        if size == 0 {
            // trailers until an empty line
            loop {
                let le = match buf[pos..].windows(2).position(|w| w == b"\r\n") {
                    Some(p) => pos + p,
                    None => return Ok(None),
                };
                let empty = le == pos;
                pos = le + 2;
                if empty {
                    return Ok(Some((out, pos)));
                }
            }
        }
        if buf.len() < pos + size + 2 {
            return Ok(None);
        }
        out.extend_from_slice(&buf[pos..pos + size]);
        if &buf[pos + size..pos + size + 2] != b"\r\n" {
            return Err("chunk not terminated by CRLF".into());
        }
        pos += size + 2;
    }
}

pub fn encode_chunked(body: &[u8], sizes: &[usize]) -> Vec<u8> {
    let mut out = Vec::with_capacity(body.len() + 64);
    let mut pos = 0;
    let mut i = 0;
    while pos < body.len() {
        let want = if sizes.is_empty() { body.len() } else { sizes[i % sizes.len()].max(1) };
        let n = want.min(body.len() - pos);
        out.extend_from_slice(format!("{:x}\r\n", n).as_bytes());
        out.extend_from_slice(&body[pos..pos + n]);
        out.extend_from_slice(b"\r\n");
        pos += n;
        i += 1;
    }
    out.extend_from_slice(b"0\r\n\r\n");
    out
}

// ------------------------------------------------------------------------------------------------
// client

/// TCP client socket bound to a chosen local port before connecting (the attribution record is keyed
/// by that port). `port` 0 lets the kernel choose; the chosen port is returned.
/// Bind a client socket on 127.0.0.1. `port` 0 = a free port; the kernel hands out only odd ports to
/// bind(0) (even ones are kept for connect()), so every other call moves to the even neighbour: real
/// callers connect without binding and arrive from even ports.
pub fn bind_local(port: u16) -> Result<(i32, u16), String> {
    static FLIP: std::sync::atomic::AtomicU64 = std::sync::atomic::AtomicU64::new(0);
    let (fd, p) = bind_exact(port, true)?;
    if port == 0 && FLIP.fetch_add(1, std::sync::atomic::Ordering::Relaxed) % 2 == 1 {
        // without SO_REUSEADDR: refused if anything (an open connection, a TIME_WAIT remnant) still holds the neighbour
        if let Ok((fd2, p2)) = bind_exact(p ^ 1, false) {
            unsafe { libc::close(fd) };
            return Ok((fd2, p2));
        }
    }
    Ok((fd, p))
}

fn bind_exact(port: u16, reuse: bool) -> Result<(i32, u16), String> {
    unsafe {
        let fd = libc::socket(libc::AF_INET, libc::SOCK_STREAM | libc::SOCK_CLOEXEC, 0);
        if fd < 0 {
            return Err(format!("socket: {}", std::io::Error::last_os_error()));
        }
        let one: libc::c_int = if reuse { 1 } else { 0 };
        libc::setsockopt(fd, libc::SOL_SOCKET, libc::SO_REUSEADDR, &one as *const _ as *const libc::c_void, 4);
        let mut addr: libc::sockaddr_in = std::mem::zeroed();
        addr.sin_family = libc::AF_INET as u16;
        addr.sin_port = port.to_be();
        addr.sin_addr.s_addr = u32::from_ne_bytes([127, 0, 0, 1]);
        if libc::bind(fd, &addr as *const _ as *const libc::sockaddr, std::mem::size_of::<libc::sockaddr_in>() as u32) != 0 {
            let e = std::io::Error::last_os_error();
            libc::close(fd);
            return Err(format!("bind 127.0.0.1:{}: {}", port, e));
        }
        let mut got: libc::sockaddr_in = std::mem::zeroed();
        let mut len = std::mem::size_of::<libc::sockaddr_in>() as u32;
        libc::getsockname(fd, &mut got as *mut _ as *mut libc::sockaddr, &mut len);
        Ok((fd, u16::from_be(got.sin_port)))
    }
}

pub fn connect_fd(fd: i32, ip: [u8; 4], port: u16) -> Result<TcpStream, String> {
    unsafe {
        let mut addr: libc::sockaddr_in = std::mem::zeroed();
        addr.sin_family = libc::AF_INET as u16;
        addr.sin_port = port.to_be();
        addr.sin_addr.s_addr = u32::from_ne_bytes(ip);
        if libc::connect(fd, &addr as *const _ as *const libc::sockaddr, std::mem::size_of::<libc::sockaddr_in>() as u32) != 0 {
            let e = std::io::Error::last_os_error();
            libc::close(fd);
            return Err(format!("connect: {}", e));
        }
        let s = TcpStream::from_raw_fd(fd);
        let _ = s.set_nodelay(true);
        Ok(s)
    }
}

/// ask the kernel to acknowledge at once (not sticky: call after every read). Without it the agent's
/// sockets (Nagle on) stall ~40 ms on every multi-segment message waiting for our delayed ACK.
pub fn quickack(s: &TcpStream) {
    use std::os::unix::io::AsRawFd;
    let one: libc::c_int = 1;
    unsafe {
        libc::setsockopt(s.as_raw_fd(), libc::IPPROTO_TCP, libc::TCP_QUICKACK, &one as *const _ as *const libc::c_void, 4);
    }
}

/// close with RST so that the local port is reusable at once
pub fn close_abortive(s: TcpStream) {
    use std::os::unix::io::AsRawFd;
    let l = libc::linger { l_onoff: 1, l_linger: 0 };
    unsafe {
        libc::setsockopt(s.as_raw_fd(), libc::SOL_SOCKET, libc::SO_LINGER, &l as *const _ as *const libc::c_void, std::mem::size_of::<libc::linger>() as u32);
    }
    drop(s);
}

#[derive(Clone, Debug)]
pub struct RawResponse {
    pub head: Head,
    pub status: u16,
    pub body: Vec<u8>,
    pub framing: Framing,
    /// bytes of this response as read from the socket (head + framed body)
    pub wire_len: usize,
}

#[derive(Debug)]
pub enum ReadError {
    Timeout(usize),
    Closed(usize),
    Malformed(String),
    Io(String),
}

/// Buffered reader over a stream that keeps unread bytes between messages (keep-alive pipelines).
pub struct MsgReader {
    pub buf: Vec<u8>,
}

impl MsgReader {
    pub fn new() -> Self {
        MsgReader { buf: Vec::new() }
    }

    fn fill(&mut self, s: &mut TcpStream, deadline: Instant) -> Result<usize, ReadError> {
        let now = Instant::now();
        if now >= deadline {
            return Err(ReadError::Timeout(self.buf.len()));
        }
        let _ = s.set_read_timeout(Some((deadline - now).max(Duration::from_millis(1))));
        let mut tmp = [0u8; 65536];
        quickack(s);
        match s.read(&mut tmp) {
            Ok(0) => Ok(0),
            Ok(n) => {
                quickack(s);
                self.buf.extend_from_slice(&tmp[..n]);
                Ok(n)
            }
            Err(e) if e.kind() == std::io::ErrorKind::WouldBlock || e.kind() == std::io::ErrorKind::TimedOut => Err(ReadError::Timeout(self.buf.len())),
            Err(e) if e.kind() == std::io::ErrorKind::ConnectionReset => Ok(0),
            Err(e) => Err(ReadError::Io(e.to_string())),
        }
    }

    pub fn read_response(&mut self, s: &mut TcpStream, request_method: &str, timeout: Duration) -> Result<RawResponse, ReadError> {
        let deadline = Instant::now() + timeout;
        loop {
            // skip interim 1xx responses
            let end = loop {
                if let Some(e) = head_end(&self.buf) {
                    break e;
                }
                if self.fill(s, deadline)? == 0 {
                    return Err(ReadError::Closed(self.buf.len()));
                }
            };
            let head = parse_head(&self.buf[..end]).map_err(ReadError::Malformed)?;
            let status: u16 = head.start.1.parse().map_err(|_| ReadError::Malformed(format!("status line {:?}", head.start)))?;
            let framing = response_framing(&head, request_method);
            let (body, consumed) = match &framing {
                Framing::None => (Vec::new(), end),
                Framing::Length(n) => {
                    while self.buf.len() < end + n {
                        if self.fill(s, deadline)? == 0 {
                            return Err(ReadError::Closed(self.buf.len()));
                        }
                    }
                    (self.buf[end..end + n].to_vec(), end + n)
                }
                Framing::Chunked => loop {
                    match decode_chunked(&self.buf[end..]).map_err(ReadError::Malformed)? {
                        Some((b, used)) => break (b, end + used),
                        None => {
                            if self.fill(s, deadline)? == 0 {
                                return Err(ReadError::Closed(self.buf.len()));
                            }
                        }
                    }
                },
                Framing::UntilClose => {
                    loop {
                        if self.fill(s, deadline)? == 0 {
                            break;
                        }
                    }
                    (self.buf[end..].to_vec(), self.buf.len())
                }
            };
            self.buf.drain(..consumed);
            if (100..200).contains(&status) && status != 101 {
                continue;
            }
            return Ok(RawResponse { head, status, body, framing, wire_len: consumed });
        }
    }
}

/// Write `data` in the given piece sizes (cycled), flushing between pieces.
pub fn write_pieces(s: &mut TcpStream, data: &[u8], pieces: &[usize], pause: Duration) -> std::io::Result<()> {
    if pieces.is_empty() {
        s.write_all(data)?;
        return s.flush();
    }
    let mut pos = 0;
    let mut i = 0;
    while pos < data.len() {
        let n = pieces[i % pieces.len()].max(1).min(data.len() - pos);
        s.write_all(&data[pos..pos + n])?;
        s.flush()?;
        pos += n;
        i += 1;
        // pauses only between the first pieces: enough to split frames, bounded in time
        if !pause.is_zero() && pos < data.len() && i <= 24 {
            std::thread::sleep(pause);
        }
    }
    Ok(())
}

/// Serialise a request head exactly as given (no normalisation).
pub fn request_head(method: &str, target: &str, headers: &[(String, Vec<u8>)]) -> Vec<u8> {
    let mut out = Vec::new();
    out.extend_from_slice(method.as_bytes());
    out.push(b' ');
    out.extend_from_slice(target.as_bytes());
    out.extend_from_slice(b" HTTP/1.1\r\n");
    for (n, v) in headers {
        out.extend_from_slice(n.as_bytes());
        out.extend_from_slice(b": ");
        out.extend_from_slice(v);
        out.extend_from_slice(b"\r\n");
    }
    out.extend_from_slice(b"\r\n");
    out
}
