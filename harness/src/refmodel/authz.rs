//! Reference authorizer table (DESIGN.md appendix A.1, second half).

use super::rbac::{self, Decision};
use crate::gen::{GClaims, GDoc};
use std::collections::BTreeSet;

#[derive(Clone, Copy, PartialEq, Eq, Debug, PartialOrd, Ord, serde::Serialize, serde::Deserialize, Hash)]
pub enum Verdict {
    Relay,
    RelayWithAudit,
    Block,
}

#[derive(Clone, Copy, PartialEq, Eq, Debug, serde::Serialize, serde::Deserialize, Hash)]
pub enum Dest {
    WireServer,
    GaPlugin,
    Imds,
    SelfProxy,
    Other,
}

pub fn classify(ip: [u8; 4], port: u16) -> Dest {
    match (ip, port) {
        ([168, 63, 129, 16], 80) => Dest::WireServer,
        ([168, 63, 129, 16], 32526) => Dest::GaPlugin,
        ([169, 254, 169, 254], 80) => Dest::Imds,
        ([127, 0, 0, 1], 3080) => Dest::SelfProxy,
        _ => Dest::Other,
    }
}

/// admissible verdicts for a request to `dest` by `claims` under `rules` (None = no rule set for the endpoint)
pub fn authorize(dest: Dest, claims: &GClaims, target: &str, rules: Option<&GDoc>) -> (BTreeSet<Verdict>, bool) {
    let mut out = BTreeSet::new();
    match dest {
        Dest::SelfProxy => {
            out.insert(Verdict::Block);
            return (out, false);
        }
        Dest::Other => {
            out.insert(Verdict::Relay);
            return (out, false);
        }
        Dest::WireServer | Dest::GaPlugin => {
            if !claims.elevated {
                out.insert(Verdict::Block);
                return (out, false);
            }
        }
        Dest::Imds => {}
    }
    match rules {
        None => {
            out.insert(Verdict::Relay);
            (out, false)
        }
        Some(doc) => {
            let adm = rbac::decide(doc, claims, target);
            for d in &adm.set {
                out.insert(match d {
                    Decision::Allow => Verdict::Relay,
                    Decision::Deny => {
                        if rbac::mode_of(doc) == "audit" {
                            Verdict::RelayWithAudit
                        } else {
                            Verdict::Block
                        }
                    }
                });
            }
            (out, adm.underspecified)
        }
    }
}
