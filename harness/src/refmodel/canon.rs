//! Reference canonical string (DESIGN.md appendix A.2). No code shared with the agent.

use super::rbac::{pairs, split_target};

pub const AUTHZ_HEADER: &str = "x-ms-azure-host-authorization";

#[derive(Clone, Copy, PartialEq, Eq, Debug)]
pub enum ParamOrder {
    /// ascending by (lower(key), value)
    Tuple,
    /// ascending by the concatenation lower(key)+value (what the agent's comment documents)
    Concat,
}

fn trim_ows(v: &[u8]) -> &[u8] {
    let mut s = 0;
    let mut e = v.len();
    while s < e && (v[s] == b' ' || v[s] == b'\t') {
        s += 1;
    }
    while e > s && (v[e - 1] == b' ' || v[e - 1] == b'\t') {
        e -= 1;
    }
    &v[s..e]
}

/// the exact multiset of canonical parameters of a request target
pub fn canon_params(target: &str) -> Vec<(String, String)> {
    let (_, q) = split_target(target);
    pairs(q).into_iter().map(|(k, v)| (k.to_lowercase(), v)).collect()
}

pub fn order_params(mut ps: Vec<(String, String)>, order: ParamOrder) -> Vec<(String, String)> {
    match order {
        ParamOrder::Tuple => ps.sort(),
        ParamOrder::Concat => ps.sort_by(|a, b| format!("{}{}", a.0, a.1).cmp(&format!("{}{}", b.0, b.1)).then(a.cmp(b))),
    }
    ps
}

pub fn render_params(ps: &[(String, String)]) -> String {
    ps.iter().map(|(k, v)| if v.is_empty() { k.clone() } else { format!("{}={}", k, v) }).collect::<Vec<_>>().join("&")
}

/// headers: (name, raw value bytes) as received; names compared case-insensitively; a header *set*
pub fn canon(method: &str, target: &str, headers: &[(String, Vec<u8>)], body: &[u8], order: ParamOrder) -> Vec<u8> {
    let mut out = Vec::new();
    out.extend_from_slice(method.as_bytes());
    out.push(b'\n');
    out.extend_from_slice(body);
    out.push(b'\n');
    let mut hs: Vec<(String, &[u8])> = headers
        .iter()
        .map(|(n, v)| (n.to_ascii_lowercase(), trim_ows(v)))
        .filter(|(n, _)| n != AUTHZ_HEADER)
        .collect();
    hs.sort_by(|a, b| a.0.cmp(&b.0));
    for (n, v) in hs {
        out.extend_from_slice(n.as_bytes());
        out.push(b':');
        out.extend_from_slice(v);
        out.push(b'\n');
    }
    let (path, _) = split_target(target);
    out.extend_from_slice(path.as_bytes());
    out.push(b'\n');
    out.extend_from_slice(render_params(&order_params(canon_params(target), order)).as_bytes());
    out
}

/// Split a canonical string produced by *anyone* back into its parts, given the body length and header count:
/// used to compare the agent's string component-wise and name the component that differs.
pub struct CanonParts {
    pub method: Vec<u8>,
    pub body: Vec<u8>,
    pub header_lines: Vec<Vec<u8>>,
    pub path: Vec<u8>,
    pub params: Vec<u8>,
}

pub fn split_canon(s: &[u8], body_len: usize, n_headers: usize) -> Option<CanonParts> {
    let nl = s.iter().position(|b| *b == b'\n')?;
    let method = s[..nl].to_vec();
    let rest = &s[nl + 1..];
    if rest.len() < body_len + 1 || rest[body_len] != b'\n' {
        return None;
    }
    let body = rest[..body_len].to_vec();
    let mut rest = &rest[body_len + 1..];
    let mut header_lines = Vec::new();
    for _ in 0..n_headers {
        let nl = rest.iter().position(|b| *b == b'\n')?;
        header_lines.push(rest[..nl].to_vec());
        rest = &rest[nl + 1..];
    }
    let nl = rest.iter().position(|b| *b == b'\n')?;
    Some(CanonParts {
        method,
        body,
        header_lines,
        path: rest[..nl].to_vec(),
        params: rest[nl + 1..].to_vec(),
    })
}
