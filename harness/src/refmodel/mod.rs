pub mod authz;
pub mod canon;
pub mod rbac;
