//! Reference RBAC evaluator, written from the statement of C02 (DESIGN.md appendix A.1).
//! Shares no code with the agent. Returns the *set* of admissible decisions: a singleton unless the
//! statement is silent (duplicate names with different content; duplicate request query keys).

use crate::gen::{GAssign, GClaims, GDoc, GIdent, GPriv, GRole};
use std::collections::BTreeSet;

#[derive(Clone, Copy, PartialEq, Eq, Debug)]
pub enum Dup {
    First,
    Last,
    Union,
}
#[derive(Clone, Copy, PartialEq, Eq, Debug)]
pub enum QDup {
    First,
    Any,
}

#[derive(Clone, Copy, PartialEq, Eq, Debug, PartialOrd, Ord)]
pub enum Decision {
    Allow,
    Deny,
}

pub fn split_target(target: &str) -> (&str, Option<&str>) {
    match target.find('?') {
        Some(i) => (&target[..i], Some(&target[i + 1..])),
        None => (target, None),
    }
}

/// query pairs: split on '&', each at the first '=', empty keys dropped, value "" when there is no '='
pub fn pairs(query: Option<&str>) -> Vec<(String, String)> {
    let mut out = Vec::new();
    if let Some(q) = query {
        for piece in q.split('&') {
            let (k, v) = match piece.find('=') {
                Some(i) => (&piece[..i], &piece[i + 1..]),
                None => (piece, ""),
            };
            if k.is_empty() {
                continue;
            }
            out.push((k.to_string(), v.to_string()));
        }
    }
    out
}

fn lower(s: &str) -> String {
    s.to_lowercase()
}

pub fn pmatch(p: &GPriv, target: &str, qd: QDup) -> bool {
    let (path, query) = split_target(target);
    if !lower(path).starts_with(&lower(&p.path)) {
        return false;
    }
    if let Some(params) = &p.query {
        let req = pairs(query);
        for (k, v) in params {
            let ok = match qd {
                QDup::Any => req.iter().any(|(rk, rv)| lower(rk) == lower(k) && lower(rv) == lower(v)),
                QDup::First => match req.iter().find(|(rk, _)| lower(rk) == lower(k)) {
                    Some((_, rv)) => lower(rv) == lower(v),
                    None => false,
                },
            };
            if !ok {
                return false;
            }
        }
    }
    true
}

pub fn imatch(i: &GIdent, c: &GClaims) -> bool {
    if let Some(u) = &i.user {
        if *u != c.user {
            return false;
        }
    }
    if let Some(p) = &i.proc_name {
        if *p != c.proc_name {
            return false;
        }
    }
    if let Some(e) = &i.exe {
        if *e != c.exe {
            return false;
        }
    }
    if let Some(g) = &i.group {
        if !c.groups.iter().any(|cg| cg == g) {
            return false;
        }
    }
    true
}

fn resolve<T: Clone>(items: &[T], name: impl Fn(&T) -> &str, dup: Dup) -> Vec<T> {
    match dup {
        Dup::Union => items.to_vec(),
        Dup::First => {
            let mut seen = BTreeSet::new();
            items.iter().filter(|x| seen.insert(name(x).to_string())).cloned().collect()
        }
        Dup::Last => {
            let mut seen = BTreeSet::new();
            let mut v: Vec<T> = items.iter().rev().filter(|x| seen.insert(name(x).to_string())).cloned().collect();
            v.reverse();
            v
        }
    }
}

pub fn mode_of(doc: &GDoc) -> String {
    lower(&doc.mode)
}

/// Diagnostic variants only: behaviours read off the agent's code, used to *name* the cause of a
/// disagreement in the violation report. They never make a check pass.
#[derive(Clone, Copy, Default)]
pub struct Quirks {
    pub raw_rule_path: bool,
    pub need_all_sections: bool,
}

pub fn decide_quirk(doc: &GDoc, claims: &GClaims, target: &str, quirks: Quirks) -> BTreeSet<Decision> {
    let mut set = BTreeSet::new();
    for d in [Dup::Last, Dup::First, Dup::Union] {
        for q in [QDup::Any, QDup::First] {
            set.insert(decide_with(doc, claims, target, d, q, quirks));
        }
    }
    set
}

pub fn decide_one(doc: &GDoc, claims: &GClaims, target: &str, dup: Dup, qd: QDup) -> Decision {
    decide_with(doc, claims, target, dup, qd, Quirks::default())
}

fn decide_with(doc: &GDoc, claims: &GClaims, target: &str, dup: Dup, qd: QDup, quirks: Quirks) -> Decision {
    if mode_of(doc) == "disabled" {
        return Decision::Allow;
    }
    let empty_p: Vec<GPriv> = vec![];
    let empty_r: Vec<GRole> = vec![];
    let empty_i: Vec<GIdent> = vec![];
    let empty_a: Vec<GAssign> = vec![];
    let all_present = doc.privileges.is_some() && doc.roles.is_some() && doc.identities.is_some() && doc.assignments.is_some();
    let (ps, rs, is, asg) = if doc.rules_present && (all_present || !quirks.need_all_sections) {
        (
            doc.privileges.as_ref().unwrap_or(&empty_p),
            doc.roles.as_ref().unwrap_or(&empty_r),
            doc.identities.as_ref().unwrap_or(&empty_i),
            doc.assignments.as_ref().unwrap_or(&empty_a),
        )
    } else {
        (&empty_p, &empty_r, &empty_i, &empty_a)
    };
    let ps = resolve(ps, |p| &p.name, dup);
    let rs = resolve(rs, |r| &r.name, dup);
    let is = resolve(is, |i| &i.name, dup);
    let matched: Vec<&GPriv> = ps
        .iter()
        .filter(|p| {
            if quirks.raw_rule_path {
                let (path, _) = split_target(target);
                lower(path).starts_with(&p.path) && pmatch(&GPriv { path: String::new(), ..(*p).clone() }, target, qd)
            } else {
                pmatch(p, target, qd)
            }
        })
        .collect();
    let granted = matched.iter().any(|p| {
        asg.iter().any(|ra| {
            rs.iter().any(|r| {
                r.name == ra.role
                    && r.privileges.iter().any(|pn| *pn == p.name)
                    && is.iter().any(|i| ra.identities.iter().any(|n| *n == i.name) && imatch(i, claims))
            })
        })
    });
    if granted {
        Decision::Allow
    } else if !matched.is_empty() {
        Decision::Deny
    } else if lower(&doc.default_access) == "allow" {
        Decision::Allow
    } else {
        Decision::Deny
    }
}

pub struct Admissible {
    pub set: BTreeSet<Decision>,
    /// true when the singleton came out of a place where the statement is silent
    pub underspecified: bool,
}

pub fn has_conflicting_duplicates(doc: &GDoc) -> bool {
    fn conflict<T: PartialEq>(items: &Option<Vec<T>>, name: impl Fn(&T) -> &str) -> bool {
        if let Some(v) = items {
            for (i, a) in v.iter().enumerate() {
                for b in &v[i + 1..] {
                    if name(a) == name(b) && a != b {
                        return true;
                    }
                }
            }
        }
        false
    }
    doc.rules_present && (conflict(&doc.privileges, |p| &p.name) || conflict(&doc.roles, |r| &r.name) || conflict(&doc.identities, |i| &i.name))
}

pub fn has_duplicate_query_keys(target: &str) -> bool {
    let (_, q) = split_target(target);
    let ps = pairs(q);
    for (i, (k, v)) in ps.iter().enumerate() {
        for (k2, v2) in &ps[i + 1..] {
            if lower(k) == lower(k2) && lower(v) != lower(v2) {
                return true;
            }
        }
    }
    false
}

pub fn decide(doc: &GDoc, claims: &GClaims, target: &str) -> Admissible {
    let mut set = BTreeSet::new();
    let dups: &[Dup] = if has_conflicting_duplicates(doc) { &[Dup::Last, Dup::First, Dup::Union] } else { &[Dup::Union] };
    let qds: &[QDup] = if has_duplicate_query_keys(target) { &[QDup::Any, QDup::First] } else { &[QDup::Any] };
    for d in dups {
        for q in qds {
            set.insert(decide_one(doc, claims, target, *d, *q));
        }
    }
    Admissible {
        underspecified: dups.len() > 1 || qds.len() > 1,
        set,
    }
}
