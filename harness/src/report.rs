//! Evidence bookkeeping shared by all engines: what was generated, how much of it was
//! non-trivial (distinct hashes), class histogram, samples, violations and tolerated known findings.

use serde::{Deserialize, Serialize};
use serde_json::Value;
use std::collections::{BTreeMap, BTreeSet};
use std::hash::{Hash, Hasher};
use std::io::Write;

/// Deterministic 64-bit hash (SipHash with fixed zero keys; no per-process randomness).
pub fn h64<T: Hash + ?Sized>(t: &T) -> u64 {
    #[allow(deprecated)]
    let mut h = std::hash::SipHasher::new_with_keys(0x6770_6176_6572_6966, 0x7665_7269_6679_2121);
    t.hash(&mut h);
    h.finish()
}

#[derive(Serialize, Deserialize, Clone, Debug)]
pub struct Violation {
    pub signature: String,
    pub detail: String,
    pub replay: Value,
}

#[derive(Default)]
pub struct Stats {
    pub evaluations: u64,
    pub nontrivial: BTreeSet<u64>,
    pub classes: BTreeMap<String, u64>,
    pub samples: Vec<Value>,
    pub reservoir: Vec<Value>,
    pub excluded_known: BTreeMap<String, u64>,
    pub underspecified: u64,
    pub violations: Vec<Violation>,
    pub inconclusive: Vec<String>,
    pub notes: Vec<String>,
    pub extra: BTreeMap<String, Value>,
    frozen: bool,
    sample_budget: usize,
}

impl Stats {
    pub fn new() -> Self {
        Stats {
            sample_budget: 4,
            ..Default::default()
        }
    }
    /// Stop counting (called at the first failure: proptest re-runs the closure while shrinking).
    pub fn freeze(&mut self) {
        self.frozen = true;
    }
    pub fn unfreeze(&mut self) {
        self.frozen = false;
    }
    pub fn is_frozen(&self) -> bool {
        self.frozen
    }
    pub fn eval(&mut self) {
        if !self.frozen {
            self.evaluations += 1;
        }
    }
    pub fn class(&mut self, name: &str) {
        if !self.frozen {
            *self.classes.entry(name.to_string()).or_insert(0) += 1;
        }
    }
    pub fn class_n(&mut self, name: &str, n: u64) {
        if !self.frozen {
            *self.classes.entry(name.to_string()).or_insert(0) += n;
        }
    }
    pub fn nontrivial_hash(&mut self, h: u64) {
        if !self.frozen {
            self.nontrivial.insert(h);
        }
    }
    pub fn known(&mut self, signature: &str) {
        if !self.frozen {
            *self.excluded_known.entry(signature.to_string()).or_insert(0) += 1;
        }
    }
    pub fn underspec(&mut self) {
        if !self.frozen {
            self.underspecified += 1;
        }
    }
    /// Keep the first few cases and a deterministic sparse sample of later ones.
    pub fn sample<F: FnOnce() -> Value>(&mut self, f: F) {
        if self.frozen {
            return;
        }
        if self.samples.len() < self.sample_budget {
            self.samples.push(f());
        } else if self.reservoir.len() < 4 {
            let n = self.evaluations;
            if n > 0 && (n & (n - 1)) == 0 && n >= 64 {
                self.reservoir.push(f());
            }
        }
    }
    pub fn violation(&mut self, v: Violation) {
        self.violations.push(v);
    }

    /// Write the worker result: `<out>.json` and `<out>.hashes` (little-endian u64s).
    pub fn write_worker_files(&self, out_prefix: &str, prop: &str, rule: &str, assumptions: &[&str], wall_s: f64) {
        let mut samples = self.samples.clone();
        samples.extend(self.reservoir.iter().cloned());
        let j = serde_json::json!({
            "property_id": prop,
            "evaluations": self.evaluations,
            "distinct_nontrivial_local": self.nontrivial.len(),
            "classes": self.classes,
            "samples": samples,
            "excluded_known": self.excluded_known,
            "underspecified": self.underspecified,
            "violations": self.violations,
            "inconclusive": self.inconclusive,
            "notes": self.notes,
            "rule": rule,
            "assumptions": assumptions,
            "wall_s": wall_s,
            "extra": self.extra,
        });
        let tmp = format!("{}.json.tmp", out_prefix);
        std::fs::write(&tmp, serde_json::to_vec_pretty(&j).unwrap()).unwrap();
        let mut hf = std::io::BufWriter::new(std::fs::File::create(format!("{}.hashes", out_prefix)).unwrap());
        for h in &self.nontrivial {
            hf.write_all(&h.to_le_bytes()).unwrap();
        }
        hf.flush().unwrap();
        drop(hf);
        std::fs::rename(&tmp, format!("{}.json", out_prefix)).unwrap();
    }
}

/// Known findings (read-only at run time): signatures with status "known" are tolerated and counted.
#[derive(Deserialize, Clone, Debug)]
pub struct KnownFinding {
    pub property: String,
    pub signature: String,
    pub status: String,
    #[serde(default)]
    pub what: String,
}

pub struct Known {
    pub tolerated: BTreeSet<String>,
}

impl Known {
    pub fn load(prop: &str) -> Known {
        let path = std::env::var("VERIF_KNOWN").unwrap_or_else(|_| "/verif/known_findings.json".to_string());
        let mut tolerated = BTreeSet::new();
        let strict = std::env::var("VERIF_STRICT").map(|v| v == "1").unwrap_or(false);
        if !strict {
            if let Ok(s) = std::fs::read_to_string(&path) {
                if let Ok(v) = serde_json::from_str::<Vec<KnownFinding>>(&s) {
                    for k in v {
                        if k.property == prop && k.status == "known" {
                            tolerated.insert(k.signature);
                        }
                    }
                }
            }
        }
        Known { tolerated }
    }
    pub fn is_known(&self, signature: &str) -> bool {
        self.tolerated.contains(signature)
    }
}

/// Parameters every worker receives through the environment (never argv: the agent's logger parses argv).
#[derive(Clone, Debug)]
pub struct Params {
    pub prop: String,
    pub tier: String,
    pub seed: u64,
    pub worker: u32,
    pub workers: u32,
    pub out: String,
    pub replay: Option<String>,
    pub cases_override: Option<u64>,
}

impl Params {
    pub fn from_env() -> Params {
        let g = |k: &str| std::env::var(k).ok();
        Params {
            prop: g("VERIF_PROP").unwrap_or_default(),
            tier: g("VERIF_TIER").unwrap_or_else(|| "quick".into()),
            seed: g("VERIF_SEED").and_then(|s| s.parse::<i64>().ok()).map(|v| v as u64).unwrap_or(1),
            worker: g("VERIF_WORKER").and_then(|s| s.parse().ok()).unwrap_or(0),
            workers: g("VERIF_WORKERS").and_then(|s| s.parse().ok()).unwrap_or(1),
            out: g("VERIF_OUT").unwrap_or_else(|| "/verif/out/worker".into()),
            replay: g("VERIF_REPLAY"),
            cases_override: g("VERIF_CASES").and_then(|s| s.parse().ok()),
        }
    }
    pub fn thorough(&self) -> bool {
        self.tier == "thorough"
    }
    /// seed for this worker: mixes VERIF_SEED, the worker index and a per-check salt.
    pub fn wseed(&self, salt: u64) -> u64 {
        h64(&(self.seed, self.worker, salt))
    }
    /// this worker's share of `total` cases.
    pub fn share(&self, total: u64) -> u64 {
        let total = self.cases_override.unwrap_or(total);
        let w = self.workers.max(1) as u64;
        let base = total / w;
        let rem = total % w;
        base + if (self.worker as u64) < rem { 1 } else { 0 }
    }
}
