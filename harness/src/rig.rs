//! End-to-end rig: the real `ProxyServer` on 127.0.0.1:3080 inside a private namespace, mock
//! metadata hosts on the real addresses, helper processes as callers, raw client connections whose
//! attribution records are placed in the stand-in audit map before `connect` (as the kernel hook does).

use crate::gen::{GClaims, GDoc};
use crate::mockhost::Mock;
use crate::ns::{self, Helpers};
use crate::rawhttp::{self, MsgReader, RawResponse, ReadError};
use azure_proxy_agent::key_keeper::key::Key;
use azure_proxy_agent::proxy::proxy_server::ProxyServer;
use azure_proxy_agent::redirector::verif_hooks;
use azure_proxy_agent::shared_state::SharedState;
use serde::{Deserialize, Serialize};
use std::io::Write;
use std::net::TcpStream;
use std::time::Duration;

/// index of the caller that can replace its image (present with the default helper set)
pub const CHAMELEON: u8 = 7;
/// index of the caller whose executable path is not valid UTF-8 (present with the default helper set)
pub const RAW_PATH_CALLER: u8 = 8;
pub const HELPER_NAMES: &[&str] = &["curl", "python3", "waagent", "Curl", "cur"];
/// the first five are the identities every strategy uses (1004 has no passwd entry); the others are ids without a passwd entry
/// that have a meaning somewhere else (the well-known Windows logon-session ids 0x3e4..0x3e9 named in proxy/windows.rs, 65533 (65534 is left out: the name service of this image synthesises "nobody" for it),
/// the largest uid): on Linux they are ordinary unprivileged users
pub const UIDS: &[u64] = &[0, 1001, 1002, 1003, 1004, 0x3e4, 0x3e5, 0x3e6, 0x3e7, 0x3e8, 65533, 4294967295, 1];
/// users with multi-byte names (C13 only)
pub const WIDE_UIDS: &[u64] = &[1005, 1006];

#[derive(Clone, Copy, Debug, Serialize, Deserialize, Hash, PartialEq, Eq)]
pub enum DestSel {
    WireServer,
    GaPlugin,
    Imds,
    SelfProxy,
    Other,
    NearMissPort,
    Dead,
}

impl DestSel {
    pub fn addr(&self) -> ([u8; 4], u16) {
        match self {
            DestSel::WireServer => ([168, 63, 129, 16], 80),
            DestSel::GaPlugin => ([168, 63, 129, 16], 32526),
            DestSel::Imds => ([169, 254, 169, 254], 80),
            DestSel::SelfProxy => ([127, 0, 0, 1], 3080),
            DestSel::Other => ([10, 99, 0, 1], 8080),
            DestSel::NearMissPort => ([168, 63, 129, 16], 81),
            DestSel::Dead => ([10, 99, 0, 2], 9),
        }
    }
    /// name of the mock listener that must receive relayed bytes
    pub fn listener(&self) -> Option<&'static str> {
        match self {
            DestSel::WireServer => Some("wireserver"),
            DestSel::GaPlugin => Some("hostga"),
            DestSel::Imds => Some("imds"),
            DestSel::Other => Some("other"),
            DestSel::NearMissPort => Some("nearmiss"),
            DestSel::SelfProxy | DestSel::Dead => None,
        }
    }
}

/// An attribution record as the kernel program would write it.
#[derive(Clone, Copy, Debug, Serialize, Deserialize, Hash, PartialEq, Eq)]
pub struct Rec {
    pub uid_sel: u8,
    pub helper_sel: u8,
    pub is_root: bool,
    pub dest: DestSel,
}

pub struct Rig {
    pub rt: tokio::runtime::Runtime,
    pub shared: SharedState,
    pub mock: Mock,
    pub helpers: Helpers,
}

pub struct Conn {
    pub stream: TcpStream,
    pub reader: MsgReader,
    pub port: u16,
}

impl Conn {
    pub fn send(&mut self, bytes: &[u8]) -> std::io::Result<()> {
        self.stream.write_all(bytes)?;
        self.stream.flush()
    }
    pub fn send_pieces(&mut self, bytes: &[u8], pieces: &[usize]) -> std::io::Result<()> {
        rawhttp::write_pieces(&mut self.stream, bytes, pieces, Duration::ZERO)
    }
    pub fn read(&mut self, method: &str, timeout: Duration) -> Result<RawResponse, ReadError> {
        self.reader.read_response(&mut self.stream, method, timeout)
    }
}

impl Rig {
    /// Enter the namespaces (must be the first thing the process does), start mocks, helpers and the proxy.
    pub fn start(helper_specs: Option<Vec<(String, Vec<String>)>>) -> Result<Rig, String> {
        ns::enter(&ns::Options::default())?;
        let helper_specs_given = helper_specs.is_some();
        let specs = helper_specs.unwrap_or_else(|| {
            let mut v: Vec<(String, Vec<String>)> = HELPER_NAMES.iter().map(|n| (n.to_string(), vec!["3600".to_string()])).collect();
            // two more callers that share an executable with an earlier one and differ only in their command line
            v.push(("curl".to_string(), vec!["3601".to_string()]));
            v.push(("python3".to_string(), vec!["script-b.py".to_string(), "--flag".to_string()]));
            v
        });
        let mut helpers = Helpers::spawn(&specs)?;
        // the last caller can replace its image with exec (same pid): curl <-> python3
        if !helper_specs_given {
            helpers.spawn_chameleon("curl", "python3", &["3700".to_string()])?;
            helpers.spawn_raw_path()?;
        }
        let mock = Mock::new();
        mock.listen("wireserver", "168.63.129.16:80")?;
        mock.listen("hostga", "168.63.129.16:32526")?;
        mock.listen("imds", "169.254.169.254:80")?;
        mock.listen("other", "10.99.0.1:8080")?;
        mock.listen("nearmiss", "168.63.129.16:81")?;
        verif_hooks::activate();
        // configuration dimension: the log level the service would take from its config file (set once per process)
        crate::runner::configure_log_level();
        let rt = tokio::runtime::Builder::new_multi_thread().worker_threads(3).enable_all().thread_name("agent-rt").build().map_err(|e| e.to_string())?;
        let shared = rt.block_on(async { SharedState::start_all() });
        let proxy = ProxyServer::new(3080, &shared);
        rt.spawn(async move { proxy.start().await });
        // wait for the listener
        let mut up = false;
        for _ in 0..400 {
            if TcpStream::connect("127.0.0.1:3080").is_ok() {
                up = true;
                break;
            }
            std::thread::sleep(Duration::from_millis(10));
        }
        if !up {
            return Err("proxy listener did not come up on 127.0.0.1:3080".into());
        }
        std::thread::sleep(Duration::from_millis(20));
        let _ = mock.take_requests();
        Ok(Rig { rt, shared, mock, helpers })
    }

    /// Install the three rule sets the way the key keeper does: they travel in ONE version-2.0 status document, go through the
    /// agent's serde types, and the items handed to the setters are what `KeyStatus::get_*_rules()` return for that document.
    pub fn set_rules(&self, ws: Option<&GDoc>, imds: Option<&GDoc>, hostga: Option<&GDoc>) {
        let mut rules = serde_json::Map::new();
        for (name, d) in [("wireserver", ws), ("imds", imds), ("hostga", hostga)] {
            if let Some(d) = d {
                rules.insert(name.to_string(), d.to_json());
            }
        }
        let doc = serde_json::json!({"authorizationScheme": "Azure-HMAC-SHA256", "keyDeliveryMethod": "http", "keyGuid": null, "requiredClaimsHeaderPairs": ["isRoot"],
            "secureChannelEnabled": true, "version": "2.0", "authorizationRules": rules});
        let status: azure_proxy_agent::key_keeper::key::KeyStatus = serde_json::from_value(doc).expect("generated status document must deserialize");
        let ks = self.shared.get_key_keeper_shared_state();
        self.rt.block_on(async {
            ks.set_wireserver_rules(status.get_wireserver_rules()).await.expect("set_wireserver_rules");
            ks.set_imds_rules(status.get_imds_rules()).await.expect("set_imds_rules");
            ks.set_hostga_rules(status.get_hostga_rules()).await.expect("set_hostga_rules");
        });
    }

    pub fn make_key(guid: &str, key_hex: &str) -> Key {
        serde_json::from_value(serde_json::json!({
            "authorizationScheme": "Azure-HMAC-SHA256",
            "guid": guid,
            "issued": "2026-01-01T00:00:00Z",
            "key": key_hex,
        }))
        .expect("key json")
    }

    pub fn set_key(&self, k: Option<(&str, &str)>) {
        let ks = self.shared.get_key_keeper_shared_state();
        self.rt.block_on(async {
            match k {
                Some((g, v)) => ks.update_key(Rig::make_key(g, v)).await.expect("update_key"),
                None => ks.clear_key().await.expect("clear_key"),
            }
        });
    }

    /// the claims the agent will derive for a record (reference side)
    pub fn claims_of(&self, rec: &Rec) -> GClaims {
        let uid = UIDS[rec.uid_sel as usize % UIDS.len()];
        let (user, groups) = ns::user_of(uid);
        let h = self.helpers.ident(rec.helper_sel as usize % self.helpers.procs.len());
        GClaims { uid, user, groups, proc_name: h.0, exe: h.1, cmdline: h.2, elevated: rec.is_root }
    }

    pub fn entry_of(&self, rec: &Rec) -> verif_hooks::Entry {
        let (ip, port) = rec.dest.addr();
        verif_hooks::Entry {
            logon_id: UIDS[rec.uid_sel as usize % UIDS.len()],
            process_id: self.helpers.pid(rec.helper_sel as usize % self.helpers.procs.len()),
            is_admin: if rec.is_root { 1 } else { 0 },
            destination_ipv4: u32::from_ne_bytes(ip),
            destination_port: port.to_be(),
        }
    }

    /// Open a client connection to the listener. `record`: what the kernel hook would have written for
    /// this connection (inserted for the source port before connecting); `port`: 0 = fresh port.
    pub fn open(&self, record: Option<verif_hooks::Entry>, port: u16) -> Result<Conn, String> {
        open_conn(record, port)
    }
}

/// see `Rig::open`
pub fn open_conn(record: Option<verif_hooks::Entry>, port: u16) -> Result<Conn, String> {
    let (fd, p) = rawhttp::bind_local(port)?;
    if let Some(e) = record {
        verif_hooks::insert(p, e);
    }
    let stream = rawhttp::connect_fd(fd, [127, 0, 0, 1], 3080)?;
    Ok(Conn { stream, reader: MsgReader::new(), port: p })
}
