//! proptest driven from a binary: fixed seed, no persistence, counting that stops at the first
//! failure, shrinking pinned to the first failure's signature, replay of a serialised case.

use crate::report::{Known, Params, Stats, Violation};
use once_cell::sync::Lazy;
use proptest::strategy::Strategy;
use proptest::test_runner::{Config, RngSeed, TestCaseError, TestError, TestRunner};
use serde::de::DeserializeOwned;
use serde::Serialize;
use std::cell::RefCell;
use std::fmt::Debug;
use std::panic::{catch_unwind, AssertUnwindSafe};
use std::sync::Mutex;

#[derive(Debug, Clone)]
pub enum Outcome {
    Pass,
    Fail { signature: String, detail: String },
}

impl Outcome {
    pub fn fail(signature: impl Into<String>, detail: impl Into<String>) -> Outcome {
        Outcome::Fail {
            signature: signature.into(),
            detail: detail.into(),
        }
    }
}

#[derive(Clone, Debug, Serialize)]
pub struct PanicRecord {
    pub location: String,
    pub message: String,
    pub thread: String,
}

/// upper bound on shrink iterations (end-to-end engines lower it: one evaluation costs milliseconds)
pub static SHRINK_ITERS: std::sync::atomic::AtomicU32 = std::sync::atomic::AtomicU32::new(20_000);

pub static PANICS: Lazy<Mutex<Vec<PanicRecord>>> = Lazy::new(|| Mutex::new(Vec::new()));

/// Install the process-wide panic hook (idempotent). Panics are recorded, not printed.
pub fn install_panic_hook() {
    static ONCE: std::sync::Once = std::sync::Once::new();
    ONCE.call_once(|| {
        std::panic::set_hook(Box::new(|info| {
            let location = info
                .location()
                .map(|l| format!("{}:{}", l.file(), l.line()))
                .unwrap_or_else(|| "unknown".into());
            let message = if let Some(s) = info.payload().downcast_ref::<&str>() {
                s.to_string()
            } else if let Some(s) = info.payload().downcast_ref::<String>() {
                s.clone()
            } else {
                "non-string panic payload".to_string()
            };
            let thread = std::thread::current().name().unwrap_or("unnamed").to_string();
            eprintln!("[panic-hook] thread {} at {}: {}", thread, location, message);
            if let Ok(mut p) = PANICS.lock() {
                p.push(PanicRecord { location, message, thread });
            }
        }));
    });
}

pub fn take_panics() -> Vec<PanicRecord> {
    std::mem::take(&mut *PANICS.lock().unwrap())
}

/// Path of a repo source file as it appears in panic locations, shortened to start at the crate dir.
pub fn short_loc(loc: &str) -> String {
    for marker in ["proxy_agent_shared/", "proxy_agent_extension/", "proxy_agent_setup/", "proxy_agent/"] {
        if let Some(i) = loc.find(marker) {
            return loc[i..].to_string();
        }
    }
    loc.to_string()
}

/// Signature of a panic: file (without line, so unrelated edits above do not change it) + message prefix.
pub fn panic_signature(p: &PanicRecord) -> String {
    let loc = short_loc(&p.location);
    let file = loc.rsplit_once(':').map(|(f, _)| f.to_string()).unwrap_or(loc);
    let msg: String = p
        .message
        .chars()
        .map(|c| if c.is_ascii_digit() { '#' } else { c })
        .take(48)
        .collect();
    format!("panic:{}:{}", file, msg)
}

/// Run `eval` with panics converted into failures.
pub fn guarded<F: FnOnce() -> Outcome>(f: F) -> Outcome {
    install_panic_hook();
    match catch_unwind(AssertUnwindSafe(f)) {
        Ok(o) => o,
        Err(_) => {
            let ps = take_panics();
            match ps.last() {
                Some(p) => Outcome::fail(panic_signature(p), format!("panic at {}: {}", short_loc(&p.location), p.message)),
                None => Outcome::fail("panic:unknown", "panic without record"),
            }
        }
    }
}

pub struct Drive<'a> {
    pub params: &'a Params,
    pub stats: &'a mut Stats,
    pub known: &'a Known,
}

impl<'a> Drive<'a> {
    /// Generate `cases` cases of `strategy` (or replay one), evaluating each with `eval`.
    /// `engine` names the generator/oracle pair inside a property so that replay files find it.
    pub fn run<S, F>(&mut self, engine: &str, salt: u64, strategy: S, cases: u64, eval: F)
    where
        S: Strategy,
        S::Value: Debug + Serialize + DeserializeOwned + Clone,
        F: Fn(&S::Value, &mut Stats) -> Outcome,
    {
        install_panic_hook();
        if let Some(path) = &self.params.replay {
            let text = match std::fs::read_to_string(path) {
                Ok(t) => t,
                Err(e) => {
                    self.stats.inconclusive.push(format!("cannot read replay {}: {}", path, e));
                    return;
                }
            };
            let v: serde_json::Value = match serde_json::from_str(&text) {
                Ok(v) => v,
                Err(e) => {
                    self.stats.inconclusive.push(format!("cannot parse replay {}: {}", path, e));
                    return;
                }
            };
            if v.get("engine").and_then(|e| e.as_str()) != Some(engine) {
                return;
            }
            let case: S::Value = match serde_json::from_value(v["case"].clone()) {
                Ok(c) => c,
                Err(e) => {
                    self.stats.inconclusive.push(format!("replay {} does not decode for engine {}: {}", path, engine, e));
                    return;
                }
            };
            self.stats.eval();
            self.stats.class(&format!("replay:{}", engine));
            let stats = &mut *self.stats;
            let o = guarded(|| eval(&case, stats));
            if let Outcome::Fail { signature, detail } = o {
                if self.known.is_known(&signature) {
                    self.stats.known(&signature);
                } else {
                    self.stats.violation(Violation {
                        signature,
                        detail,
                        replay: serde_json::json!({"engine": engine, "case": case, "from": path, "log_level": configured_log_level()}),
                    });
                }
            }
            return;
        }
        if cases == 0 {
            return;
        }
        let seed = self.params.wseed(salt);
        let mut seed_bytes = [0u8; 32];
        for i in 0..4 {
            seed_bytes[i * 8..(i + 1) * 8].copy_from_slice(&crate::report::h64(&(seed, i as u64)).to_le_bytes());
        }
        let config = Config {
            cases: cases.min(u32::MAX as u64) as u32,
            failure_persistence: None,
            rng_seed: RngSeed::Fixed(seed),
            max_shrink_iters: SHRINK_ITERS.load(std::sync::atomic::Ordering::Relaxed),
            // a failure that costs a time-out per evaluation (the agent hangs) must not eat the watchdog while shrinking
            max_shrink_time: 90_000,
            max_global_rejects: 1_000_000,
            ..Config::default()
        };
        let _ = seed_bytes;
        let mut runner = TestRunner::new(config);
        let cell = RefCell::new((&mut *self.stats, None::<String>));
        let known = self.known;
        let result = runner.run(&strategy, |case| {
            let mut guard = cell.borrow_mut();
            let (stats, first_sig) = &mut *guard;
            stats.eval();
            let o = guarded(|| eval(&case, stats));
            match o {
                Outcome::Pass => Ok(()),
                Outcome::Fail { signature, detail } => {
                    if known.is_known(&signature) {
                        stats.known(&signature);
                        return Ok(());
                    }
                    if signature.starts_with("rig:") {
                        // the machinery itself could not set the case up (sockets, helper processes): never a verdict
                        if stats.inconclusive.len() < 20 {
                            stats.inconclusive.push(format!("{}: {}", signature, detail.chars().take(300).collect::<String>()));
                        }
                        return Ok(());
                    }
                    // a verdict that rests on a wall-clock wait (no response / not finished / not seen within N seconds) is only
                    // reported if the SAME case gives it again: a real hang or loss is a function of the case, a starved
                    // machine is not. An unconfirmed one is counted (class) and the search goes on.
                    if first_sig.is_none() && timing_sensitive(&signature) {
                        let mut confirmed = false;
                        for _ in 0..2 {
                            if let Outcome::Fail { signature: s2, .. } = guarded(|| eval(&case, stats)) {
                                if s2 == signature {
                                    confirmed = true;
                                    break;
                                }
                            }
                        }
                        if !confirmed {
                            stats.class(&format!("unconfirmed-timing-verdict(not-reproduced-by-the-same-case-twice):{}", signature));
                            return Ok(());
                        }
                    }
                    match first_sig {
                        None => {
                            *first_sig = Some(signature.clone());
                            stats.freeze();
                            Err(TestCaseError::fail(format!("{}: {}", signature, detail)))
                        }
                        Some(s) if *s == signature => Err(TestCaseError::fail(format!("{}: {}", signature, detail))),
                        Some(_) => Ok(()),
                    }
                }
            }
        });
        let (stats, first_sig) = cell.into_inner();
        match result {
            Ok(()) => {}
            Err(TestError::Fail(reason, value)) => {
                let signature = first_sig.unwrap_or_else(|| "unknown".into());
                // detail of the *shrunk* case
                let o = guarded(|| eval(&value, stats));
                let detail = match o {
                    Outcome::Fail { detail, .. } => detail,
                    Outcome::Pass => format!("{} (shrunk case did not reproduce on re-evaluation)", reason),
                };
                stats.unfreeze();
                stats.violation(Violation {
                    signature,
                    detail,
                    replay: serde_json::json!({"engine": engine, "case": value, "seed": self.params.seed, "worker": self.params.worker, "log_level": configured_log_level()}),
                });
            }
            Err(TestError::Abort(reason)) => {
                stats.unfreeze();
                stats.inconclusive.push(format!("{}: generator aborted: {}", engine, reason));
            }
        }
    }
}

impl<'a> Drive<'a> {
    /// Evaluate the cases addressed by the files of `<base>/<target>/` for every base directory in
    /// VERIF_WORDS_DIRS (the committed seed corpus of the fuzz target, and in the thorough tier the corpus
    /// and the crash artefacts of the campaign). Files are split over the workers. A failing file becomes
    /// an ordinary violation whose replay holds the decoded case for `engine`.
    pub fn run_words<C, D, F>(&mut self, engine: &str, target: &str, decode: D, eval: F)
    where
        C: Debug + Serialize + Clone,
        D: Fn(&mut crate::words::Words) -> Option<C>,
        F: Fn(&C, &mut Stats) -> Outcome,
    {
        if self.params.replay.is_some() {
            return;
        }
        let dirs = std::env::var("VERIF_WORDS_DIRS").unwrap_or_default();
        let mut files: Vec<std::path::PathBuf> = Vec::new();
        for base in dirs.split(':').filter(|d| !d.is_empty()) {
            if let Ok(rd) = std::fs::read_dir(std::path::Path::new(base).join(target)) {
                files.extend(rd.flatten().map(|e| e.path()).filter(|p| p.is_file()));
            }
        }
        files.sort();
        let mut failed: std::collections::BTreeSet<String> = Default::default();
        for (i, f) in files.iter().enumerate() {
            if (i as u32) % self.params.workers.max(1) != self.params.worker {
                continue;
            }
            let data = match std::fs::read(f) {
                Ok(d) => d,
                Err(_) => continue,
            };
            let case = match decode(&mut crate::words::Words::new(&data)) {
                Some(c) => c,
                None => continue,
            };
            self.stats.eval();
            self.stats.class(&format!("corpus-file:{}", target));
            let stats = &mut *self.stats;
            let o = guarded(|| eval(&case, stats));
            if let Outcome::Fail { signature, detail } = o {
                if self.known.is_known(&signature) {
                    self.stats.known(&signature);
                } else if failed.insert(signature.clone()) || f.file_name().map(|n| n.to_string_lossy().starts_with("crash-")).unwrap_or(false) {
                    self.stats.violation(Violation { signature, detail, replay: serde_json::json!({"engine": engine, "case": case, "from_words_file": f.display().to_string()}) });
                }
            }
        }
    }
}

/// Monotone index mapping (keeps shrinking convergent): u16 selector -> 0..len.
pub fn pick(sel: u16, len: usize) -> usize {
    if len == 0 {
        0
    } else {
        ((sel as usize) * len) >> 16
    }
}

/// The agent's log level is process-wide configuration (`fileLogLevel` in the service); the end-to-end workers run under
/// different levels (chosen from the worker index, or taken from the replay file) and record the one in force.
static LOG_LEVEL: std::sync::OnceLock<String> = std::sync::OnceLock::new();

pub fn configured_log_level() -> String {
    LOG_LEVEL.get().cloned().unwrap_or_else(|| "Trace(default)".to_string())
}

pub fn configure_log_level() -> String {
    let from_replay = std::env::var("VERIF_REPLAY").ok().and_then(|p| std::fs::read_to_string(p).ok()).and_then(|t| serde_json::from_str::<serde_json::Value>(&t).ok()).and_then(|v| v["log_level"].as_str().map(|s| s.to_string()));
    let worker: usize = std::env::var("VERIF_WORKER").ok().and_then(|s| s.parse().ok()).unwrap_or(0);
    let seed: usize = std::env::var("VERIF_SEED").ok().and_then(|s| s.parse::<i64>().ok()).map(|v| v as usize).unwrap_or(1);
    let name = from_replay.unwrap_or_else(|| if worker % 2 == 0 { "Trace(default)".to_string() } else { ["Info", "Warn", "Error", "Debug"][(worker / 2 + seed) % 4].to_string() });
    let level = match name.as_str() {
        "Info" => Some(log::Level::Info),
        "Warn" => Some(log::Level::Warn),
        "Error" => Some(log::Level::Error),
        "Debug" => Some(log::Level::Debug),
        _ => None,
    };
    if let Some(l) = level {
        proxy_agent_shared::logger::logger_manager::set_logger_level(l);
    }
    let _ = LOG_LEVEL.set(name.clone());
    name
}

/// signatures whose verdict is "something did not happen within a wall-clock wait"
pub fn timing_sensitive(signature: &str) -> bool {
    ["does-not-terminate", "no-response", "not-consumed-at-accept", "no-status-line", "not-serving", "connection-lost", "not-advanc", "not-answered", "did-not-", "timed-out", "timeout", "stopped-publishing", "not-converg"].iter().any(|k| signature.contains(k))
}
