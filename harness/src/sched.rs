//! Owned-schedule executor (DESIGN.md section 3): on a current-thread tokio runtime the root future
//! holds the operations as boxed futures and, for each element of a generated schedule, either polls
//! one operation once with a no-op waker or yields (the only points at which the shared-state actor
//! tasks, spawned connection tasks and the I/O driver run). The interleaving is a function of the
//! schedule vector.

use std::future::Future;
use std::pin::Pin;
use std::task::{Context, Poll, Waker};

pub type Op<'a, T> = Pin<Box<dyn Future<Output = T> + 'a>>;

pub struct Slot<'a, T> {
    pub fut: Option<Op<'a, T>>,
    pub out: Option<T>,
    pub polls: u32,
    /// index in the schedule at which the operation was first polled / completed
    pub started_at: Option<usize>,
    pub finished_at: Option<usize>,
    /// wall clock (unix nanoseconds) just before the first poll / just after completion
    pub started_wall: i128,
    pub finished_wall: i128,
}

pub fn now_nanos() -> i128 {
    std::time::SystemTime::now().duration_since(std::time::UNIX_EPOCH).map(|d| d.as_nanos() as i128).unwrap_or(0)
}

/// Run `ops` under `schedule`. Entry `v`: `v % (n + 1) == n` yields, otherwise polls operation `v % (n + 1)`.
/// After the schedule every unfinished operation is driven to completion in index order.
pub async fn run<'a, T>(ops: Vec<Op<'a, T>>, schedule: &[u8], drain_timeout: std::time::Duration) -> Vec<Slot<'a, T>> {
    let n = ops.len();
    let mut slots: Vec<Slot<'a, T>> = ops.into_iter().map(|f| Slot { fut: Some(f), out: None, polls: 0, started_at: None, finished_at: None, started_wall: 0, finished_wall: 0 }).collect();
    let waker = Waker::noop();
    for (step, v) in schedule.iter().enumerate() {
        let k = (*v as usize) % (n + 1);
        if k == n {
            tokio::task::yield_now().await;
            continue;
        }
        let s = &mut slots[k];
        if let Some(f) = s.fut.as_mut() {
            let mut cx = Context::from_waker(waker);
            s.polls += 1;
            if s.started_at.is_none() {
                s.started_at = Some(step);
                s.started_wall = now_nanos();
            }
            if let Poll::Ready(o) = f.as_mut().poll(&mut cx) {
                s.out = Some(o);
                s.fut = None;
                s.finished_at = Some(step);
                s.finished_wall = now_nanos();
            }
        }
    }
    // drain
    for (i, s) in slots.iter_mut().enumerate() {
        if let Some(f) = s.fut.take() {
            if s.started_at.is_none() {
                s.started_at = Some(schedule.len() + 2 * i);
                s.started_wall = now_nanos();
            }
            match tokio::time::timeout(drain_timeout, f).await {
                Ok(o) => {
                    s.out = Some(o);
                    s.finished_at = Some(schedule.len() + 2 * i + 1);
                    s.finished_wall = now_nanos();
                }
                Err(_) => {}
            }
        }
    }
    slots
}
