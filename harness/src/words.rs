//! Fuzz input as a sequence of 64-bit words; each word selects one component of a case through a
//! proptest strategy (a fresh, word-seeded ChaCha stream), so the fuzz targets share generators and
//! oracles with the property checks. (proptest's pass-through RNG cannot be used for this: every
//! `prop_oneof!` / `prop_flat_map` forks the stream by halving what is left of it, and once it runs dry
//! it yields zeros, on which rand's rejection sampling never terminates.)

use proptest::strategy::{Strategy, ValueTree};
use proptest::test_runner::{Config, RngAlgorithm, TestRng, TestRunner};

fn splitmix(x: &mut u64) -> u64 {
    *x = x.wrapping_add(0x9E37_79B9_7F4A_7C15);
    let mut z = *x;
    z = (z ^ (z >> 30)).wrapping_mul(0xBF58_476D_1CE4_E5B9);
    z = (z ^ (z >> 27)).wrapping_mul(0x94D0_49BB_1331_11EB);
    z ^ (z >> 31)
}

/// one value of `s`, a pure function of `word`
pub fn draw<S: Strategy>(s: &S, word: u64) -> S::Value {
    let mut seed = [0u8; 32];
    let mut x = word;
    for c in seed.chunks_mut(8) {
        c.copy_from_slice(&splitmix(&mut x).to_le_bytes());
    }
    let rng = TestRng::from_seed(RngAlgorithm::ChaCha, &seed);
    let mut runner = TestRunner::new_with_rng(Config { failure_persistence: None, ..Config::default() }, rng);
    s.new_tree(&mut runner).expect("strategy without rejection").current()
}

pub struct Words<'a> {
    data: &'a [u8],
    pos: usize,
    pad: u64,
}

impl<'a> Words<'a> {
    pub fn new(data: &'a [u8]) -> Words<'a> {
        Words { data, pos: 0, pad: data.len() as u64 }
    }
    /// the next word of the input; past its end a fixed pseudo-random continuation
    pub fn next(&mut self) -> u64 {
        if self.pos + 8 <= self.data.len() {
            let mut b = [0u8; 8];
            b.copy_from_slice(&self.data[self.pos..self.pos + 8]);
            self.pos += 8;
            u64::from_le_bytes(b)
        } else {
            self.pos = self.data.len();
            splitmix(&mut self.pad)
        }
    }
    pub fn words_left(&self) -> usize {
        (self.data.len() - self.pos) / 8
    }
}
