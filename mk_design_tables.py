#!/usr/bin/env python3
"""Fills the generated tables of DESIGN.md (findings, mutations, seeded) from the JSON records."""
import glob, json, re
s = open('/verif/DESIGN.md').read()
def put(tag, text):
    global s
    repl = '<!-- BEGIN:%s -->\n%s\n<!-- END:%s -->' % (tag, text.strip(), tag)
    s = re.sub(r'<!-- BEGIN:%s -->.*?<!-- END:%s -->' % (tag, tag), lambda m: repl, s, flags=re.S)
k = json.load(open('/verif/known_findings.json'))
rows = ['| property | status | commit | signature | what failed |', '|---|---|---|---|---|']
for e in k:
    rows.append('| %s | %s | %s | `%s` | %s |' % (e['property'], e['status'], e.get('commit', '-'), e['signature'].replace('|', '\\|')[:70], e['what'].replace('|', '\\|')))
put('findings', '\n'.join(rows))
try:
    m = json.load(open('/verif/mutations/results.json'))
except Exception:
    m = []
rows = ['| mutation | property | file | outcome | first signatures |', '|---|---|---|---|---|']
for e in sorted(m, key=lambda x: x['name']):
    sig = '; '.join(x.replace('violation signature: ', '') for x in e.get('signatures', [])[:2])
    rows.append('| %s | %s | %s | %s | %s |' % (e['name'], e['property'], e.get('file', ''), e['outcome'], sig[:120]))
put('mutations', '\n'.join(rows))
rows = ['| id | property | what the change does | needs | our checks (quick tier) | note |', '|---|---|---|---|---|---|']
notes = {}
try:
    notes = json.load(open('/verif/seeded/notes.json'))
except Exception:
    pass
for f in sorted(glob.glob('/verif/seeded/*/meta.json')):
    e = json.load(open(f))
    sid = f.split('/')[-2]
    res = '; '.join('%s: %s' % (c, 'CAUGHT (%s)' % (r['signatures'][0].replace('violation signature: ', '')[:60] if r['signatures'] else '') if r['caught'] else 'missed') + (' [first run: missed]' if r.get('first_run', {}).get('caught') is False and r['caught'] else '') for c, r in e.get('our_checks_against_it', {}).items())
    rows.append('| %s | %s | %s | %s | %s | %s |' % (sid, e.get('property'), (e.get('breaks') or '')[:300].replace('|', '\\|').replace('\n', ' '), (e.get('needs_to_manifest') or '')[:220].replace('|', '\\|').replace('\n', ' '), res, notes.get(sid, '')))
put('seeded', '\n'.join(rows))
open('/verif/DESIGN.md', 'w').write(s)
print("tables written")
