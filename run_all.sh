#!/bin/bash
# run every check of a tier in sequence; prints one summary line per property
# usage: run_all.sh [quick|thorough] [ids...]   (default: all twenty, in order)
tier=${1:-quick}
shift
ids="$*"
[ -z "$ids" ] && ids="C01 C02 C03 C04 C05 C06 C07 C08 C09 C10 C11 C12 C13 C14 C15 C16 C17 C18 C19 C20"
cd "$(dirname "$0")"
mkdir -p out
rc=0
for p in $ids; do
  t0=$(date +%s)
  ./check $p $tier > out/.run_all_$p.log 2>&1
  r=$?
  echo "$p $tier exit=$r $(( $(date +%s) - t0 ))s :: $(grep -v conda out/.run_all_$p.log | tail -1)"
  grep -E "^(VIOLATION|KNOWN-FINDING|INCONCLUSIVE)" out/.run_all_$p.log
  [ $r -ne 0 ] && rc=$r
done
exit $rc
